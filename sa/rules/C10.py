"""C10 — definition files mean what they say, independent of order and loading path."""
from __future__ import annotations

import ast

from .. import memo, shape
from ..flow import call_name, dotted, norm, writes_in
from ..index import AnalysisError, ClassInfo, walk_local
from ..lib import cfg_of, defs_of, edge_leads_only_to_raise, find, has, live, nodes_calling, nodes_with, witness

PD = "pint.facets.plain.definitions"
PR = "pint.facets.plain.registry"
TP = "pint.delegates.txt_defparser"
ERR = "pint.errors"

EXPLANATION = (
    "Static analysis (no execution): G-ERR error discipline in the definition dataclasses (__post_init__ must raise the "
    "error objects it builds; validators receive the field they name; pint exception classes are constructed with an "
    "arity their __init__ accepts) and in the parser front end (iter_parsed_project raises every syntax-error statement, "
    "block error and derive_definition failure; from_string* classifiers return or raise every error object they build "
    "and swallow only NotNumeric); G-EXH exhaustiveness (every statement class the root block can yield, after "
    "derive_definition, has a registered adder along the registry MRO; every non-comment member of a block body union "
    "is consumed by derive_definition; classifier precedence: the union orders keep the confirmed overlapping pairs in "
    "order — comment first, @alias/[dimension]/prefix before the catch-all unit form, <-> before ->, the unguarded "
    "BaseUnitRule last — and each classifier keeps its acceptance guard); numbers in definitions go through "
    "ParserConfig.to_number / to_scaled_units_container (registry numeric type); adders store what they are given on every "
    "path; define/load_definitions dispatch every parsed definition; the disk-cache key covers every loaded source, the "
    "numeric type and the version, and a loaded cache is installed; solve_dependencies raises on cycles. Does not decide "
    "that a whole file is interpreted as written or order independence (needs execution).")
EXPLANATION += ' Also decided (rules added after the second round of seeded changes): parse_file and parse_string pass the same parser class, config (`cfg or self._default_config`), cache and options, the registry builds its parser with ParserConfig(non_int_type) and define/load_definitions go through it; to_units_container rejects a numeric factor and to_dimension_container is built from that scale-checked container; @alias spellings are indexed like inline aliases.'

LATENT = {
    ("UnitDefinition.__post_init__", "Base unit definitions cannot have a scale"): "latent: the error object is returned instead of raised, but `_is_base` is then never set and the adder fails with AttributeError at load time; no definition is given a meaning",
    ("DerivedDimensionDefinition.__post_init__", "derived dimensions must only reference"): "latent: returned instead of raised, but the following validity check of the reference names raises for every non-dimension name",
}


# ---------------------------------------------------------------- role helpers (no name of a local variable below)
def loop_source(name_node, fn):
    """(iterable expression, position in the loop target or None) of the for loop / comprehension that binds the name
    used at `name_node`; None if the name is not a loop variable."""
    cur = name_node
    while cur is not None and cur is not fn:
        par = getattr(cur, "_parent", None)
        gens = []
        if isinstance(par, (ast.For, ast.AsyncFor)):
            gens = [(par.target, par.iter)]
        elif isinstance(par, (ast.ListComp, ast.SetComp, ast.GeneratorExp, ast.DictComp)):
            gens = [(g.target, g.iter) for g in par.generators]
        for tgt, it in gens:
            if isinstance(tgt, ast.Name) and tgt.id == name_node.id:
                return it, None
            if isinstance(tgt, (ast.Tuple, ast.List)):
                for i, t in enumerate(tgt.elts):
                    if isinstance(t, ast.Name) and t.id == name_node.id:
                        return it, i
        cur = par
    return None


def origin(e, fn, depth: int = 5) -> str:
    """Where a value comes from, as text: temporaries are replaced by their dominating definitions and a loop variable
    by `<iterable>[*]` (`for k in self.aliases: f(k)` -> `self.aliases[*]`; `for i, r in enumerate(self.rules, 1):
    f(r.x)` -> `self.rules[*].x`).  Anything else is written as it stands."""
    if isinstance(e, ast.Name) and isinstance(e.ctx, ast.Load) and depth > 0:
        v = shape.dominating_def(e, fn)
        if v is not None:
            return origin(v, fn, depth - 1)
        src = loop_source(e, fn)
        if src is not None:
            it, pos = src
            if pos is None:
                return origin(it, fn, depth - 1) + "[*]"
            if isinstance(it, ast.Call) and call_name(it) == "enumerate" and it.args and pos == 1:
                return origin(it.args[0], fn, depth - 1) + "[*]"
            if isinstance(it, ast.Call) and call_name(it) == "items" and isinstance(it.func, ast.Attribute) and not it.args:
                return origin(it.func.value, fn, depth - 1) + (".keys()[*]" if pos == 0 else ".values()[*]")
            return origin(it, fn, depth - 1) + f"[*][{pos}]"
        return e.id
    if isinstance(e, ast.Attribute):
        return origin(e.value, fn, depth) + "." + e.attr
    if isinstance(e, ast.Call) and isinstance(e.func, ast.Name) and e.func.id in ("tuple", "list", "sorted", "set", "iter") and len(e.args) == 1 and not e.keywords:
        return origin(e.args[0], fn, depth)
    return shape.rnorm(e, fn)


def last_field(org: str) -> str:
    """the attribute an origin text ends with (`self.rules[*].new_unit_name` -> new_unit_name, `self.aliases[*]` -> aliases)"""
    return org.replace("[*]", "").rsplit(".", 1)[-1]


def names_of_container(org: str) -> bool:
    """origin text of an element of the keys of a mapping (`X.keys()[*]`), or of the reference mapping iterated directly"""
    return org.endswith(".keys()[*]") or (org.endswith("[*]") and last_field(org) == "reference")


def rejected_by(e, validator: str):
    """If expression `e` is the collection of the elements for which `<...>.<validator>` is false - in either spelling:
    `filterfalse(<validator>, K)` or a comprehension `[x for x in K if not <validator>(x)]`, possibly wrapped in
    tuple / list / set / sorted - the iterable K, else None."""
    while isinstance(e, ast.Call) and isinstance(e.func, ast.Name) and e.func.id in ("tuple", "list", "set", "sorted", "frozenset") and len(e.args) == 1:
        e = e.args[0]
    if isinstance(e, ast.Call) and call_name(e) == "filterfalse" and len(e.args) == 2 and norm(e.args[0]).split(".")[-1] == validator:
        return e.args[1]
    if isinstance(e, (ast.ListComp, ast.SetComp, ast.GeneratorExp)) and len(e.generators) == 1 and isinstance(e.generators[0].target, ast.Name):
        g = e.generators[0]
        var = g.target.id
        facts = [f_ for i in g.ifs for f_ in shape.conjuncts(i, "t")]
        failing = [a_ for (a_, truth) in facts if truth is False and isinstance(a_, ast.Call) and call_name(a_) == validator and len(a_.args) == 1 and norm(a_.args[0]) == var]
        if isinstance(e.elt, ast.Name) and e.elt.id == var and failing and len(facts) == 1:
            return g.iter
    return None


def ctor_arg(call, pos: int, name: str):
    """argument of a constructor call given positionally at `pos` or by keyword `name`"""
    if len(call.args) > pos and not any(isinstance(a, ast.Starred) for a in call.args[:pos + 1]):
        return call.args[pos]
    for k in call.keywords:
        if k.arg == name:
            return k.value
    return None


def derives_from(fi, e, *calls) -> bool:
    """the value of `e` is computed (on some path, through any temporaries) by calls of all the given names; a mapping
    filled by item assignment (`d[k] = v`) derives from the stored values as well"""
    dfs = defs_of(fi)
    roots = set(dfs.roots(e))
    reach, todo = set(), [x.id for x in ast.walk(e) if isinstance(x, ast.Name)]
    while todo:
        nm = todo.pop()
        if nm in reach:
            continue
        reach.add(nm)
        for (v, k, st) in dfs.defs.get(nm, []):
            if v is not None:
                todo += [x.id for x in ast.walk(v) if isinstance(x, ast.Name)]
        for a in walk_local(fi.node):
            if isinstance(a, ast.Assign) and len(a.targets) == 1 and isinstance(a.targets[0], ast.Subscript) and isinstance(a.targets[0].value, ast.Name) and a.targets[0].value.id == nm:
                roots |= set(dfs.roots(a.value))
                todo += [x.id for x in ast.walk(a.value) if isinstance(x, ast.Name)]
    return all(f"call:{c}" in roots for c in calls)


def parser_entry_rule(ck, ix):
    """Every way text reaches the definition parser (file, string, list of lines, define()) is parsed with the
    registry's own configuration (its non_int_type), and the two entry points of DefParser are siblings."""
    calls = {}
    for name in ("parse_file", "parse_string"):
        f = ix.func(TP + ".defparser", f"DefParser.{name}")
        ck.analysed(f)
        cs = [c for c in walk_local(f.node) if isinstance(c, ast.Call) and dotted(c.func) in ("fp.parse", "fp.parse_bytes")]
        ck.check(len(cs) == 1, "G-TWIN", f"DefParser.{name}|one-flexparser-call", f.loc(), "delegates to flexparser once", f"{name} has {len(cs)} flexparser calls")
        if len(cs) != 1:
            continue
        c = cs[0]
        args = [norm(a) for a in c.args]
        kw = {k.arg: norm(k.value) for k in c.keywords}
        calls[name] = (args[1:], kw)
        cfg_arg = args[2] if len(args) > 2 else kw.get("config")
        ck.check(cfg_arg in ("cfg or self._default_config", "self._default_config if cfg is None else cfg", "cfg if cfg is not None else self._default_config"), "G-PROV", f"DefParser.{name}|parsed-with-registry-config", f.loc(c),
                 "explicit config, else the registry's default config", f"{name} parses with `{cfg_arg}`: text without explicit config must be parsed with the registry's configuration (non_int_type); a fresh ParserConfig() reads numbers as float")
    if len(calls) == 2:
        ck.check(calls["parse_file"] == calls["parse_string"], "G-TWIN", "DefParser.parse_file/parse_string|same-parser-config-cache-options", ix.func(TP + ".defparser", "DefParser.parse_string").loc(),
                 "files and strings are parsed with the same parser class, config, cache and options", f"parse_file and parse_string disagree: {calls['parse_file']} vs {calls['parse_string']}")
    init = ix.func(PR, "GenericPlainRegistry.__init__")
    dp = [c for c in walk_local(init.node) if isinstance(c, ast.Call) and call_name(c) == "DefParser"]
    ok = len(dp) == 1 and dp[0].args and shape.rnorm(dp[0].args[0], init.node).endswith("ParserConfig(non_int_type)")
    ck.check(bool(ok), "G-PROV", "Registry.__init__|parser-config-carries-non_int_type", init.loc(dp[0]) if dp else init.loc(), "DefParser(ParserConfig(non_int_type), ...)", "the registry's definition parser is not configured with the registry's non_int_type")
    for q in ("GenericPlainRegistry.define", "GenericPlainRegistry.load_definitions"):
        f = ix.func(PR, q)
        ck.analysed(f)
        for c in walk_local(f.node):
            if isinstance(c, ast.Call) and call_name(c) in ("parse_string", "parse_file", "iter_parsed_project"):
                recv = norm(c.func.value) if isinstance(c.func, ast.Attribute) else ""
                ck.check(recv == "self._def_parser" and len(c.args) == 1 and not c.keywords, "G-PROV", f"{q}|uses-own-parser|{call_name(c)}", f.loc(c), "parsed by the registry's own parser with its default config",
                         f"`{norm(c)}` does not go through the registry's own parser/config")
    # ParserConfig conversion chain
    BD = "pint.delegates.base_defparser"
    f = ix.func(BD, "ParserConfig.to_units_container")
    ck.analysed(f)
    cfg = cfg_of(f)
    scale_is_one = lambda a_: isinstance(a_, ast.Compare) and isinstance(a_.ops[0], ast.Eq) and sorted([shape.rnorm(a_.left, f.node), shape.rnorm(a_.comparators[0], f.node)]) == sorted(["self.to_scaled_units_container(s).scale", "1"])
    gates = shape.guard_edges(cfg, scale_is_one, want=False)          # edges on which the parsed container is known to carry a factor
    ck.check(bool(gates) and all(edge_leads_only_to_raise(cfg, g, lab) is None for (g, lab) in gates), "G-DOM", "ParserConfig.to_units_container|scale-must-be-one", f.loc(), "a numeric factor in a units/dimension container raises", "to_units_container no longer rejects a container with a numeric factor (scale != 1)")
    f = ix.func(BD, "ParserConfig.to_dimension_container")
    ck.analysed(f)
    defs = defs_of(f)
    rets = [r for r in walk_local(f.node) if isinstance(r, ast.Return) and r.value is not None]
    for r in rets:
        roots = defs.roots(r.value)
        ck.check("call:to_units_container" in roots and "call:to_scaled_units_container" not in roots, "G-PROV", "ParserConfig.to_dimension_container|scale-checked-container", f.loc(r), "built from the scale-checked container",
                 f"the dimension container derives from {sorted(x for x in roots if x.startswith('call:'))}: it must come from to_units_container (which rejects numeric factors); `[area] = 2 * [length] ** 2` would load with the 2 dropped")
    cfg = cfg_of(f)
    def names_failing_the_dimension_test(a_):
        """the collection of keys for which errors.is_valid_dimension_name is false (whatever local holds it)"""
        if not isinstance(a_, (ast.Name, ast.Call, ast.ListComp, ast.SetComp)):
            return False
        over = rejected_by(shape.resolve(a_, f.node), "is_valid_dimension_name")
        # ... of the scale-checked container that is returned (its keys, or the mapping iterated directly)
        return over is not None and norm(over) in ("self.to_units_container(s)", "self.to_units_container(s).keys()")
    g = shape.guard_edges(cfg, names_failing_the_dimension_test, want=True)
    ck.check(bool(g) and all(edge_leads_only_to_raise(cfg, x, lab) is None for (x, lab) in g), "G-DOM", "ParserConfig.to_dimension_container|invalid-names-raise", f.loc(), "non-dimension names raise", "to_dimension_container no longer raises for names that are not [dimension] names")
    f = ix.func(BD, "ParserConfig.to_scaled_units_container")
    rets = shape.returns_of(f.node)
    ck.check(bool(rets) and all(shape.rnorm(r.value, f.node) == "ParserHelper.from_string(s, self.non_int_type)" for r in rets), "G-PROV", "ParserConfig.to_scaled_units_container|registry-numeric-type", f.loc(), "numbers read in the configured numeric type", "to_scaled_units_container no longer passes self.non_int_type")

def run(ck, ix, tier):
    ck.rule("G-ERR", "error objects are raised/returned, validators check the field they name, constructors get a valid arity")
    ck.rule("G-EXH", "every case the parser can produce is handled / consumed; classifier order keeps overlapping pairs")
    # ------------------------------------------------------------ (a) __post_init__ discipline
    n_post = 0
    for m in ix.modules.values():
        for ci in m.classes.values():
            pi = ci.methods.get("__post_init__")
            if pi is None:
                continue
            ck.analysed(pi)
            n_post += 1
            qual = f"{ci.name}.__post_init__"
            for c in walk_local(pi.node):
                if isinstance(c, ast.Call) and call_name(c) in ("def_err", "DefinitionError", "DefinitionSyntaxError", "ValueError", "TypeError"):
                    par = getattr(c, "_parent", None)
                    raised = isinstance(par, ast.Raise)
                    text = norm(c)
                    key = f"{qual}|error-object-raised|{text[:50]}"
                    lat = [why for (q, frag), why in LATENT.items() if q == qual and frag in text]
                    if not raised and lat:
                        ck.ok("G-ERR", key, pi.loc(c), "LATENT (triaged, not a property violation): " + lat[0])
                        continue
                    ck.check(raised, "G-ERR", key, pi.loc(c), "the error object is raised",
                             f"`{norm(par)[:80] if par is not None else text}`: __post_init__ builds an error object without raising it (its return value is discarded, the ill-formed definition is accepted)")
            # validator / field agreement
            for c in walk_local(pi.node):
                if isinstance(c, ast.Call) and call_name(c).startswith("is_valid_") and len(c.args) == 1:
                    kind, fld = call_name(c)[len("is_valid_"):].rsplit("_", 1) if "_" in call_name(c)[len("is_valid_"):] else ("", call_name(c).rsplit("_", 1)[1])
                    arg = norm(c.args[0])
                    org = origin(c.args[0], pi.node)       # e.g. self.name, self.aliases[*], self.rules[*].new_unit_name
                    if fld == "name":
                        # the name field, a field / collection of names, or (contexts) the alternative names of the context
                        # ... or a key of a reference container (`self.reference.keys()[*]`, also through a hoisted view or by
                        # iterating the mapping itself): the names a definition refers to
                        ok = last_field(org).endswith(("name", "names")) or (kind == "context" and org == "self.aliases[*]") or names_of_container(org)
                    elif fld == "symbol":
                        ok = org == "self.defined_symbol"
                    elif fld == "alias":
                        ok = org == "self.aliases[*]"
                    else:
                        ok = True
                    ck.check(ok, "G-ERR", f"{qual}|validator-field-agreement|{call_name(c)}", pi.loc(c), f"{call_name(c)}({arg})",
                             f"`{norm(c)}` validates `{arg}` although the validator (and the error message) is about the {fld}")
                if isinstance(c, ast.Call) and call_name(c) in ("filterfalse", "map") and len(c.args) == 2 and norm(c.args[0]).startswith("errors.is_"):
                    ck.ok("G-ERR", f"{qual}|validator-over-reference|{norm(c.args[0])[-25:]}", pi.loc(c), f"{norm(c)[:70]}")
    ck.floor("G-ERR", n_post, 4, "__post_init__ validators of definition dataclasses")
    # inventory: (key text, validator, what it must be applied to: a field, or `[*]` = every element of a field)
    EACH_ALIAS = "self.aliases[*]"
    for q, inv in (("UnitDefinition.__post_init__", [("is_valid_unit_name(self.name)", "self.name"), ("is_valid_unit_symbol(self.defined_symbol)", "self.defined_symbol"), ("is_valid_unit_alias(alias)", EACH_ALIAS)]),
                   ("PrefixDefinition.__post_init__", [("is_valid_prefix_name(self.name)", "self.name"), ("is_valid_prefix_symbol(self.defined_symbol)", "self.defined_symbol"), ("is_valid_prefix_alias(alias)", EACH_ALIAS)]),
                   ("AliasDefinition.__post_init__", [("is_valid_unit_name(self.name)", "self.name"), ("is_valid_unit_alias(alias)", EACH_ALIAS)]),
                   ("DimensionDefinition.__post_init__", [("is_valid_dimension_name(self.name)", "self.name")]), ("DerivedDimensionDefinition.__post_init__", [("is_valid_dimension_name(self.name)", "self.name")])):
        f = ix.func(PD, q)
        applied = {(call_name(c), origin(c.args[0], f.node)) for c in walk_local(f.node) if isinstance(c, ast.Call) and call_name(c).startswith("is_valid_") and len(c.args) == 1}
        for frag, target in inv:
            ck.check((frag.split("(")[0], target) in applied, "G-ERR", f"{q}|validates|{frag}", f.loc(), f"{frag} is checked", f"{q} no longer checks `{frag}` ({frag.split('(')[0]} applied to {target})")
    f = ix.func(PD, "UnitDefinition.__post_init__")
    ck.check("Cannot mix dimensions and units in the same definition" in norm(f.node) and "raise self.def_err" in norm(f.node), "G-ERR", "UnitDefinition.__post_init__|mixed-reference-rejected", f.loc(), "mixed dimension/unit references raise", "mixed dimension/unit references are no longer rejected")
    # validators themselves
    e = ix.module(ERR)
    ck.check(norm(e.assigns.get("is_valid_unit_name")) == "str.isidentifier" or "str.isidentifier" in e.source, "G-ERR", "errors|unit-names-are-identifiers", e.relpath, "unit names must be identifiers", "unit names are no longer validated as identifiers")
    ns = e.functions.get("_no_space")
    ck.check(ns is not None and "name.strip() == name and ' ' not in name" in norm(ns.node), "G-ERR", "errors|_no_space", ns.loc() if ns else e.relpath, "symbols/aliases must not contain spaces", "_no_space no longer rejects spaces")

    # ------------------------------------------------------------ exception constructor arity
    exc = {}
    for ci in e.classes.values():
        init = ci.methods.get("__init__")
        if init is not None:
            a = init.node.args
            req = len(a.args) - 1 - len(a.defaults)
            exc[ci.name] = (req, len(a.args) - 1)
    n_ctor = 0
    latent_arity = {("GenericSystemRegistry._add_system", "DefinitionError")}
    for f in ix.all_functions():
        if not isinstance(f.node, (ast.FunctionDef, ast.AsyncFunctionDef)):
            continue
        for c in walk_local(f.node):
            if isinstance(c, ast.Call) and call_name(c) in exc and not any(isinstance(a, ast.Starred) for a in c.args) and not any(k.arg is None for k in c.keywords):
                if isinstance(c.func, ast.Attribute) and dotted(c.func.value) not in ("errors", "pint.errors"):
                    continue
                r = ix.resolve_expr(f.module, c.func)
                if isinstance(r, ClassInfo) and r.module.name != ERR:
                    continue
                lo, hi = exc[call_name(c)]
                n = len(c.args) + len(c.keywords)
                n_ctor += 1
                q = f.qualname.split("::")[1]
                if not (lo <= n <= hi) and (q, call_name(c)) in latent_arity:
                    ck.ok("G-ERR", f"{q}|constructor-arity|{call_name(c)}", f.loc(c), "LATENT (triaged): wrong arity raises TypeError instead of DefinitionError; an error is raised either way")
                    continue
                ck.check(lo <= n <= hi, "G-ERR", f"{q}|constructor-arity|{call_name(c)}|{norm(c)[:30]}", f.loc(c), f"{call_name(c)} called with {n} argument(s)",
                         f"`{norm(c)[:80]}` passes {n} argument(s), {call_name(c)}.__init__ takes {lo}..{hi}")
    ck.floor("G-ERR", n_ctor, 15, "constructions of pint exception classes")

    # ------------------------------------------------------------ iter_parsed_project
    f = ix.func(TP + ".defparser", "DefParser.iter_parsed_project")
    ck.analysed(f)
    cfg = cfg_of(f)
    # role: a "statement" = the element of the loop over the blocks of the parsed project (under any name); "raised" = from
    # there neither the next iteration of any loop nor the normal exit can be reached
    BLOCKS = "parsed_project.iter_blocks()"
    is_stmt = lambda x: origin(x, f.node) == BLOCKS + "[*]"
    blocks_loops = [l for l in walk_local(f.node) if isinstance(l, ast.For) and origin(l.iter, f.node) == BLOCKS]
    ck.floor("G-ERR", len(blocks_loops), 1, "loop over parsed_project.iter_blocks() in iter_parsed_project")
    for_nodes = [n.id for n in cfg.nodes if n.kind == "for"]
    def is_syntax_error(a_):
        a_ = shape.unalias(a_, f.node)            # a flag holding the test is looked through
        return isinstance(a_, ast.Call) and shape.match("isinstance(_X, common.DefinitionSyntaxError)", a_) is not None and is_stmt(a_.args[0])
    t = shape.guard_edges(cfg, is_syntax_error, want=True)
    ck.check(bool(t) and all(edge_leads_only_to_raise(cfg, x, lab, also_forbid=for_nodes) is None for (x, lab) in t), "G-ERR", "iter_parsed_project|syntax-error-statements-raised", f.loc(),
             "a syntax-error statement is raised", "a syntax-error statement in the parsed project is skipped instead of raised (ill-formed lines silently ignored)")
    loops = [n.id for n in cfg.nodes if n.kind == "for" and origin(n.stmt.iter, f.node) == BLOCKS + "[*].errors"]
    ck.check(bool(loops) and all(edge_leads_only_to_raise(cfg, l, "t", also_forbid=for_nodes) is None for l in loops), "G-ERR", "iter_parsed_project|block-errors-raised", f.loc(), "errors collected in a block are raised", "errors collected inside a directive block are no longer raised")
    derives = lambda c: isinstance(c, ast.Call) and call_name(c) == "derive_definition" and isinstance(c.func, ast.Attribute) and is_stmt(c.func.value)
    trys = [tr for tr in walk_local(f.node) if isinstance(tr, ast.Try) and any(derives(c) for s_ in tr.body for c in ast.walk(s_))]
    handlers = [i for tr in trys for h_ in tr.handlers for i in cfg.nodes_for_ast(h_)]
    ok = bool(trys) and bool(handlers) and all(edge_leads_only_to_raise(cfg, h_, "n", also_forbid=for_nodes) is None for h_ in handlers)
    ck.check(ok, "G-ERR", "iter_parsed_project|derive-failure-raised", f.loc(), "a failing derive_definition is re-raised as DefinitionSyntaxError", "a failing derive_definition is swallowed")
    skip = [a for a in ix.cls(TP + ".defparser", "DefParser").node.body if isinstance(a, (ast.Assign, ast.AnnAssign)) and "skip_classes" in norm(a)]
    if skip:
        val = skip[0].value
        names = sorted(norm(x) for x in val.elts) if isinstance(val, ast.Tuple) else []
        ck.check(names == sorted(["fp.BOF", "fp.BOR", "fp.BOS", "fp.EOS", "plain.CommentDefinition"]), "G-EXH", "DefParser.skip_classes|only-structural-and-comments", f.loc(), "only structural markers and comments are skipped", f"skipped statement classes are {names}: definitions of those classes are silently ignored")
    # classifiers: error objects returned or raised
    n_cls = 0
    for mn in (TP + ".plain", TP + ".context", TP + ".group", TP + ".system", TP + ".defaults", TP + ".block", TP + ".common"):
        for fn in ix.module(mn).all_functions:
            if not isinstance(fn.node, ast.FunctionDef):
                continue
            for c in walk_local(fn.node):
                if isinstance(c, ast.Call) and call_name(c) in ("DefinitionSyntaxError",):
                    n_cls += 1
                    par = getattr(c, "_parent", None)
                    ok = isinstance(par, (ast.Return, ast.Raise)) or (isinstance(par, ast.Assign))
                    ck.check(ok, "G-ERR", f"{fn.qualname.split('::')[1]}|error-returned-or-raised|{norm(c)[:40]}", fn.loc(c), "error object returned/raised (flexparser protocol)",
                             f"`{norm(par)[:80] if par is not None else norm(c)}` builds a DefinitionSyntaxError and drops it")
            for h in [h for tr in walk_local(fn.node) if isinstance(tr, ast.Try) for h in tr.handlers]:
                body_pass = all(isinstance(s_, ast.Pass) for s_ in h.body)
                ck.check(not body_pass, "G-ERR", f"{fn.qualname.split('::')[1]}|no-silent-except|{norm(h.type) if h.type else 'bare'}", fn.loc(h), "handler does something", f"`except {norm(h.type) if h.type else ''}: pass` swallows a parsing error")
            bad = [c for c in walk_local(fn.node) if isinstance(c, ast.Call) and isinstance(c.func, ast.Name) and c.func.id in ("float", "complex", "eval", "int") and fn.name.startswith("from_string")]
            ck.check(not bad, "G-PROV", f"{fn.qualname.split('::')[1]}|numbers-only-through-config", fn.loc(bad[0]) if bad else fn.loc(), "no float()/complex()/int()/eval() in a classifier",
                     f"`{norm(bad[0]) if bad else ''}` converts a number of a definition outside ParserConfig (registry numeric type lost)") if fn.name.startswith("from_string") else None
    ck.floor("G-ERR", n_cls, 5, "DefinitionSyntaxError constructions in classifiers")
    # numbers through the config (by role: what reaches the constructor / converter was produced by a ParserConfig method)
    def cls_calls(fn_):
        return [c for c in ast.walk(fn_.node) if isinstance(c, ast.Call) and isinstance(c.func, ast.Name) and c.func.id == "cls"]

    def field_from(fn_, pos, field, *calls):
        """constructor field (positional `pos` / keyword `field`) of every `cls(...)` is computed by calls of these names"""
        cs = cls_calls(fn_)
        ck.floor("G-PROV", len(cs), 1, f"cls(...) construction in {fn_.name}")
        args = [ctor_arg(c, pos, field) for c in cs]
        # a construction that passes an empty literal for the field (guard clause for "nothing given") has nothing to read
        empty = lambda a: norm(a) in ("{}", "()", "[]", "None", "dict()", "tuple()")
        return all(a is not None and (derives_from(fn_, a, *calls) or empty(a)) for a in args) and any(a is not None and derives_from(fn_, a, *calls) for a in args)

    def field_via(fn_, pos, field, *methods):
        """... by config.<method>(...) (and by no other object's method of that name)"""
        named = [c for c in ast.walk(fn_.node) if isinstance(c, ast.Call) and call_name(c) in methods]
        return field_from(fn_, pos, field, *methods) and all(isinstance(c.func, ast.Attribute) and norm(c.func.value) == "config" for c in named)

    def number_dict(fn_, key_pat):
        """a mapping entry `<key_pat of K>: config.to_number(V)` - in a dict comprehension or as `d[<key_pat of K>] =
        config.to_number(V)` - where K and V are the two names of one pair: bound together by a loop / comprehension
        target or by a tuple assignment (`K, V = part.split(':')`)"""
        pairs = set()
        for x in ast.walk(fn_.node):
            tgts = [x.target] if isinstance(x, (ast.For, ast.comprehension)) else (x.targets if isinstance(x, ast.Assign) else [])
            for tg in tgts:
                if isinstance(tg, (ast.Tuple, ast.List)) and len(tg.elts) == 2 and all(isinstance(y, ast.Name) for y in tg.elts):
                    pairs.add((tg.elts[0].id, tg.elts[1].id))
        for d in ast.walk(fn_.node):
            if isinstance(d, ast.DictComp):
                key, val = d.key, d.value
            elif isinstance(d, ast.Assign) and len(d.targets) == 1 and isinstance(d.targets[0], ast.Subscript):
                key, val = d.targets[0].slice, d.value
            else:
                continue
            bk, bv = shape.match(key_pat, key), shape.match("config.to_number(_V)", val)
            if bk is not None and bv is not None and (bk["_K"], bv["_V"]) in pairs:
                return True
        return False

    def unit_modifiers(fn_):
        fa = [c for (c, b, _f) in find(ix, fn_, "Converter.from_arguments(*_R, **_M)")]
        return bool(fa) and number_dict(fn_, "_K.strip()") and all(any(k.arg is None and derives_from(fn_, k.value, "to_number") for k in c.keywords) for c in ast.walk(fn_.node) if isinstance(c, ast.Call) and norm(c.func) == "Converter.from_arguments")

    def unit_converter(fn_):
        cs = [c for c in ast.walk(fn_.node) if isinstance(c, ast.Call) and shape.match("config.to_scaled_units_container(_X)", c) is not None]
        return bool(cs) and all("s" in defs_of(fn_).roots(c.args[0]) for c in cs) and field_via(fn_, 4, "reference", "to_scaled_units_container")
    for mod, q, frag, decide in ((TP + ".plain", "PrefixDefinition.from_string_and_config", "value = config.to_number(value)", lambda fn_: field_via(fn_, 1, "value", "to_number")),
                                 (TP + ".plain", "UnitDefinition.from_string_and_config", "key.strip(): config.to_number(value)", unit_modifiers),
                                 (TP + ".plain", "UnitDefinition.from_string_and_config", "converter = config.to_scaled_units_container(converter)", unit_converter),
                                 (TP + ".context", "BeginContext.from_string_and_config", "str(k).strip(): config.to_number(v)", lambda fn_: number_dict(fn_, "str(_K).strip()") and field_via(fn_, 2, "defaults", "to_number")),
                                 (TP + ".plain", "DerivedDimensionDefinition.from_string_and_config", "reference = config.to_dimension_container(value)", lambda fn_: field_via(fn_, 1, "reference", "to_dimension_container")),
                                 (TP + ".context", "_from_string_and_context_sep", "config.to_dimension_container(s)", lambda fn_: field_via(fn_, 0, "src", "to_dimension_container") and field_via(fn_, 1, "dst", "to_dimension_container"))):
        fn = ix.func(mod, q)
        ck.analysed(fn)
        ck.check(bool(decide(fn)), "G-PROV", f"{q}|{frag[:40]}", fn.loc(), f"`{frag}`", f"{q} no longer reads its value with `{frag}` (numbers must be read in the registry's numeric type by ParserConfig)")
    fn = ix.func(TP + ".plain", "UnitDefinition.from_string_and_config")
    # scale and reference both come from the one parsed right-hand side; the modifiers are handed to the converter; both reach cls(...)
    ok = has(ix, fn, "Converter.from_arguments(scale=config.to_scaled_units_container(_X).scale, **_M)") and has(ix, fn, "UnitsContainer(config.to_scaled_units_container(_X))") \
        and field_from(fn, 3, "converter", "from_arguments") and field_from(fn, 4, "reference", "UnitsContainer")
    ck.check(ok, "G-PROV", "UnitDefinition.from_string|scale-modifiers-reference", fn.loc(),
             "scale, modifiers and reference all come from the parsed right-hand side", "the unit converter/reference are no longer built from the parsed right-hand side")

    # ------------------------------------------------------------ (b) adders for every statement class
    root = ix.cls(TP + ".defparser", "PintRootBlock")
    union = None
    for b in root.node.bases:
        for n in ast.walk(b):
            if isinstance(n, ast.Subscript) and norm(n.value) in ("ty.Union", "Union", "typing.Union"):
                union = n.slice.elts if isinstance(n.slice, ast.Tuple) else [n.slice]
                break
        if union:
            break
    if not union:
        raise AnalysisError("PintRootBlock union not found")
    members = [ix.resolve_expr(root.module, x) for x in union]
    ck.floor("G-EXH", len(members), 6, "members of the root block union")
    registered = set()
    reg = ix.cls("pint.registry", "UnitRegistry")
    for c in ix.mro(reg):
        ra = c.methods.get("_register_definition_adders")
        if ra is None:
            continue
        ck.analysed(ra)
        for call in walk_local(ra.node):
            if isinstance(call, ast.Call) and call_name(call) == "_register_adder" and call.args:
                r = ix.resolve_expr(ra.module, call.args[0])
                if isinstance(r, ClassInfo):
                    registered.add(r)
    ck.floor("G-EXH", len(registered), 4, "registered definition adders along the UnitRegistry MRO")
    for x, mem in zip(union, members):
        if not isinstance(mem, ClassInfo):
            raise AnalysisError(f"cannot resolve union member {norm(x)}")
        if mem.name == "ImportDefinition":
            ck.ok("G-EXH", "adder|ImportDefinition", mem.module.relpath, "handled by flexparser's include mechanism")
            continue
        target = mem
        dd = mem.methods.get("derive_definition")
        if dd is not None:
            rets = [r for r in walk_local(dd.node) if isinstance(r, ast.Return) and isinstance(r.value, ast.Call)]
            t2 = ix.resolve_expr(dd.module, rets[-1].value.func) if rets else None
            if isinstance(t2, ClassInfo):
                target = t2
        ok = any(c in registered for c in ix.mro(target))
        ck.check(ok, "G-EXH", f"adder|{mem.name}->{target.name}", mem.module.relpath, f"{target.name} has an adder", f"statements of class {mem.name} (definition class {target.name}) have no registered adder: define()/load raise TypeError or they are ignored")
    hd = ix.func(PR, "GenericPlainRegistry._helper_dispatch_adder")
    cfg = cfg_of(hd)
    # by role: the classes of the definition's MRO are searched for one that is in self._adders; when none is found - the
    # search loop runs to its end (for/else), or `next(<search>, None)` gives None - only raise TypeError follows
    mro_of_definition = lambda e: shape.rnorm(e, hd.node) in ("inspect.getmro(definition.__class__)", "inspect.getmro(type(definition))", "definition.__class__.__mro__", "type(definition).__mro__")
    not_found = []
    for n in cfg.nodes:
        if n.kind == "for" and isinstance(n.stmt.target, ast.Name) and mro_of_definition(n.stmt.iter) \
                and any(isinstance(c_, ast.Compare) and shape.rnorm(c_, hd.node) == f"{n.stmt.target.id} in self._adders" for c_ in ast.walk(n.stmt)):
            not_found.append((n.id, "f"))

    def search_gave_none(a_):
        b = shape.match("_X is None", a_)
        if b is None:
            return False
        v = shape.resolve(a_.left, hd.node)
        if not (isinstance(v, ast.Call) and isinstance(v.func, ast.Name) and v.func.id == "next" and len(v.args) == 2 and norm(v.args[1]) == "None" and isinstance(v.args[0], ast.GeneratorExp) and len(v.args[0].generators) == 1):
            return False
        g = v.args[0].generators[0]
        facts = [f_ for i in g.ifs for f_ in shape.conjuncts(i, "t")]
        return isinstance(g.target, ast.Name) and norm(v.args[0].elt) == g.target.id and norm(g.iter) in ("inspect.getmro(definition.__class__)", "inspect.getmro(type(definition))", "definition.__class__.__mro__", "type(definition).__mro__") \
            and len(facts) == 1 and facts[0][1] is True and shape.match(f"{g.target.id} in self._adders", facts[0][0]) is not None
    not_found += shape.guard_edges(cfg, search_gave_none, want=True)
    ck.check(bool(not_found) and all(edge_leads_only_to_raise(cfg, x, lab) is None for (x, lab) in not_found) and any(isinstance(n.ast, ast.Raise) and "TypeError" in norm(n.ast) for n in cfg.nodes if n.kind == "stmt"), "G-EXH", "_helper_dispatch_adder|unknown-class-raises", hd.loc(),
             "dispatch along the MRO; unknown classes raise TypeError", "_helper_dispatch_adder no longer raises for a definition class without adder")
    for q in ("GenericPlainRegistry.define", "GenericPlainRegistry.load_definitions"):
        fn = ix.func(PR, q)
        ck.analysed(fn)
        from .. import shape as _shl
        loops = [l for l in walk_local(fn.node) if isinstance(l, ast.For) and _shl.match("_P.iter_parsed_project(_X)", _shl.resolve(l.iter, fn.node)) is not None]
        ok = bool(loops) and all(len(l.body) == 1 and isinstance(l.target, ast.Name) and norm(l.body[0]) == f"self._helper_dispatch_adder({l.target.id})" for l in loops)
        ck.check(ok, "G-EXH", f"{q}|every-parsed-definition-dispatched", fn.loc(), "every definition of the parsed project is dispatched", f"{q} no longer dispatches every definition of the parsed project")

    # ------------------------------------------------------------ (c) body consumption of the blocks, (d) order
    blocks = [(TP + ".context", "ContextDefinition"), (TP + ".group", "GroupDefinition"), (TP + ".system", "SystemDefinition"), (TP + ".defaults", "DefaultsDefinition")]
    ORDER = {"ContextDefinition": ["CommentDefinition", "BidirectionalRelation", "ForwardRelation", "UnitDefinition"], "GroupDefinition": ["CommentDefinition", "UnitDefinition"],
             "SystemDefinition": ["CommentDefinition", "BaseUnitRule"], "DefaultsDefinition": ["CommentDefinition", "Equality"]}
    for mod, cn in blocks:
        ci = ix.cls(mod, cn)
        body = None
        for b in ci.node.bases:
            subs = [n for n in ast.walk(b) if isinstance(n, ast.Subscript) and norm(n.value) in ("ty.Union", "Union", "typing.Union")]
            if subs:
                body = subs[0].slice.elts if isinstance(subs[0].slice, ast.Tuple) else [subs[0].slice]
        if body is None:
            raise AnalysisError(f"{cn}: body union not found")
        names = [norm(x).split(".")[-1] for x in body]
        ck.check(names == ORDER[cn], "G-EXH", f"{cn}|body-classifier-order", ci.module.relpath, f"body classifiers tried in order {names}",
                 f"{cn} tries its body classifiers in order {names}; the confirmed order is {ORDER[cn]} (flexparser takes the first classifier that answers: a comment/relation line would be re-classified)")
        used = set()
        for mth in ci.methods.values():
            for c in walk_local(mth.node):
                if isinstance(c, ast.Call) and call_name(c) in ("isinstance", "filter_by") and c.args:
                    sel = c.args[-1]
                    for n in ast.walk(sel):
                        if isinstance(n, ast.Attribute):
                            used.add(n.attr)
                        elif isinstance(n, ast.Name):
                            used.add(n.id)
        for nm in names:
            if nm == "CommentDefinition":
                continue
            ck.check(nm in used, "G-EXH", f"{cn}|body-member-consumed|{nm}", ci.module.relpath, f"{nm} statements are consumed by derive_definition",
                     f"{cn}: body statements of class {nm} are parsed but never consumed when the definition is derived")
        dd = ci.methods.get("derive_definition")
        ck.check(dd is not None, "G-EXH", f"{cn}|derive_definition-present", ci.module.relpath, "derive_definition present", f"{cn} has no derive_definition")
    root_names = [norm(x).split(".")[-1] for x in union]
    want = ["CommentDefinition", "ImportDefinition", "ContextDefinition", "DefaultsDefinition", "SystemDefinition", "GroupDefinition", "AliasDefinition", "DerivedDimensionDefinition", "DimensionDefinition", "PrefixDefinition", "UnitDefinition"]
    def before(a, b):
        return a in root_names and b in root_names and root_names.index(a) < root_names.index(b)
    for a, b, why in (("CommentDefinition", "UnitDefinition", "a comment containing '=' would be read as a unit"), ("CommentDefinition", "PrefixDefinition", "a comment"), ("AliasDefinition", "UnitDefinition", "'@alias x = y' contains '='"),
                      ("AliasDefinition", "PrefixDefinition", "'@alias x- = y'"), ("DerivedDimensionDefinition", "UnitDefinition", "'[a] = [b]' contains '='"), ("DerivedDimensionDefinition", "PrefixDefinition", "'[a] = [b]'"),
                      ("PrefixDefinition", "UnitDefinition", "'kilo- = 1000' contains '='"), ("ContextDefinition", "UnitDefinition", "block headers before line forms"), ("GroupDefinition", "UnitDefinition", "block headers"),
                      ("SystemDefinition", "UnitDefinition", "block headers"), ("DefaultsDefinition", "UnitDefinition", "block headers")):
        ck.check(before(a, b), "G-EXH", f"root-classifier-order|{a}<{b}", root.module.relpath, f"{a} is tried before {b}", f"{b} is tried before {a} in the root block union: {why} (first classifier that answers wins)")
    # acceptance guards of the line classifiers
    # by facts: a classifier answers (returns something other than None) only where its acceptance predicate is known to
    # hold; atoms are written in positive form with wildcards for locals, (pattern, truth)
    from .. import shape as _shg
    G = [(TP + ".plain", "CommentDefinition.from_string", [("s.startswith('#')", True)]), (TP + ".plain", "AliasDefinition.from_string", [("s.startswith('@alias ')", True)]),
         (TP + ".plain", "DimensionDefinition.from_string", [("s.startswith('[')", True), ("'=' in s", False)]),
         (TP + ".plain", "DerivedDimensionDefinition.from_string_and_config", [("s.startswith('[')", True), ("'=' in s", True)]),
         (TP + ".plain", "PrefixDefinition.from_string_and_config", [("_N.endswith('-')", True)]), (TP + ".plain", "UnitDefinition.from_string_and_config", [("'=' in s", True)]),
         (TP + ".plain", "Equality.from_string", [("'=' in s", True)]),
         (TP + ".block", "EndDirectiveBlock.from_string", [("s == '@end'", True)]), (TP + ".defaults", "BeginDefaults.from_string", [("s.strip() == '@defaults'", True)]),
         (TP + ".group", "BeginGroup.from_string", [("s.startswith('@group')", True)]),
         (TP + ".system", "BeginSystem.from_string", [("s.startswith('@system')", True)]), (TP + ".common", "ImportDefinition.from_string", [("s.startswith('@import')", True)]),
         (TP + ".context", "_from_string_and_context_sep", [("separator in s", True), ("':' in s", True)])]
    for mod, q, preds in G:
        fn = ix.func(mod, q)
        ck.analysed(fn)
        fnn = _shg.inline_helpers(ix, fn)
        answers = [r for r in _shg.returns_of(fnn) if not (isinstance(r.value, ast.Constant) and r.value.value is None) and not _shg.dead(r, fnn)]
        ck.floor("G-EXH", len(answers), 1, f"answering return of classifier {q}")
        missing = [f"{'' if truth else 'not '}{pat}" for pat, truth in preds
                   if not all(_shg.holds_at(r, fnn, lambda a_, pat=pat: _shg.match(pat, a_) is not None, truth) for r in answers)]
        frag = " and ".join(f"{'' if truth else 'not '}{pat}" for pat, truth in preds)
        ck.check(not missing, "G-EXH", f"classifier-guard|{q}", fn.loc(), f"answers only when `{frag}`",
                 f"{q} can answer although `{' / '.join(missing)}` is not established: it answers for lines of another kind (or none)")
    fn = ix.func(TP + ".context", "ForwardRelation.from_string_and_config")
    ck.check([shape.rnorm(r.value, fn.node) for r in shape.returns_of(fn.node)] == ["_from_string_and_context_sep(cls, s, config, '->')"], "G-EXH", "classifier-guard|ForwardRelation.separator", fn.loc(), "-> separator", "ForwardRelation no longer splits on '->'")
    fn = ix.func(TP + ".context", "BidirectionalRelation.from_string_and_config")
    ck.check([shape.rnorm(r.value, fn.node) for r in shape.returns_of(fn.node)] == ["_from_string_and_context_sep(cls, s, config, '<->')"], "G-EXH", "classifier-guard|BidirectionalRelation.separator", fn.loc(), "<-> separator", "BidirectionalRelation no longer splits on '<->'")
    fn = ix.func(TP + ".context", "_from_string_and_context_sep")
    def containers_in_order(text):
        """`text` maps config.to_dimension_container over the separator-separated parts of what precedes the ':' (in order)"""
        g = ast.parse(text, mode="eval").body
        while isinstance(g, ast.Call) and isinstance(g.func, ast.Name) and g.func.id in ("tuple", "list") and len(g.args) == 1:
            g = g.args[0]
        parts = "s.split(':')[0].split(separator)"
        if isinstance(g, (ast.GeneratorExp, ast.ListComp)) and len(g.generators) == 1 and not g.generators[0].ifs and isinstance(g.generators[0].target, ast.Name):
            return shape.match("config.to_dimension_container(_V)", g.elt) == {"_V": g.generators[0].target.id} and norm(g.generators[0].iter) == parts
        return shape.match(f"map(config.to_dimension_container, {parts})", g) is not None
    def in_source_order(v):
        """cls(<container of part 0>, <container of part 1>, <stripped text after ':'>), the parts converted one by one or by one mapping"""
        b = shape.match("cls(_G[0], _G[1], _E)", v)
        if b is not None and containers_in_order(b["_G"]):
            return b["_E"] == "s.split(':')[1].strip()"
        b = shape.match("cls(config.to_dimension_container(_P[0]), config.to_dimension_container(_P[1]), _E)", v)
        return b is not None and b["_P"] == "s.split(':')[0].split(separator)" and b["_E"] == "s.split(':')[1].strip()"
    built = [shape.resolve(r.value, fn.node) for r in shape.returns_of(fn.node) if not (isinstance(r.value, ast.Constant) and r.value.value is None)]
    ck.floor("G-PROV", len(built), 1, "relation built by _from_string_and_context_sep")
    ck.check(all(in_source_order(v) for v in built), "G-PROV", "relation|src-dst-equation-order", fn.loc(), "relation = (src, dst, equation)", "the relation fields are no longer (src, dst, equation) in source order")

    # ------------------------------------------------------------ adders store what they get
    fn = ix.func(PR, "GenericPlainRegistry._add_derived_dimension")
    ck.analysed(fn)
    cfg = cfg_of(fn)
    store = nodes_with(cfg, lambda x: isinstance(x, ast.Call) and call_name(x) == "_helper_adder" and norm(x.args[0]) == "definition" and norm(x.args[1]) == "self._dimensions")
    p = cfg.all_paths_pass(cfg.entry, [cfg.exit], store)
    ck.check(bool(store) and p is None, "G-EXH", "_add_derived_dimension|always-stored", fn.loc(), "a derived dimension is stored on every path",
             "a derived dimension definition can be dropped (e.g. when a placeholder base dimension of the same name was auto-created by a forward reference): it silently stays a base dimension", witness(cfg, p))
    for q, tbl in (("GenericPlainRegistry._add_dimension", "self._dimensions"), ("GenericPlainRegistry._add_prefix", "self._prefixes"), ("GenericPlainRegistry._add_unit", "self._units")):
        fn = ix.func(PR, q)
        cfg = cfg_of(fn)
        store = nodes_with(cfg, lambda x: isinstance(x, ast.Call) and call_name(x) == "_helper_adder" and norm(x.args[0]) == "definition" and norm(x.args[1]) == tbl)
        p = cfg.all_paths_pass(cfg.entry, [cfg.exit], store)
        ck.check(bool(store) and p is None, "G-EXH", f"{q.split('.')[1]}|always-stored", fn.loc(), f"stored in {tbl} on every path", f"{q} can return without storing the definition in {tbl}", witness(cfg, p))
    fn = ix.func(PR, "GenericPlainRegistry._add_unit")
    src = norm(fn.node)
    from .. import shape as _sh10
    fnx = _sh10.inline_helpers(ix, fn, skip=("_add_dimension", "_helper_adder", "_helper_single_adder", "_add_unit", "_add_alias"))     # an extracted private helper is looked through
    srcx = norm(fnx)
    is_base = lambda a_: isinstance(a_, ast.Attribute) and a_.attr == "is_base"
    app = [c_ for c_ in ast.walk(fnx) if isinstance(c_, ast.Call) and norm(c_.func) == "self._base_units.append"]

    def unknown_dimension(c_):
        """`self._add_dimension(DimensionDefinition(D))` runs only where `D in self._dimensions` is known to be false"""
        d_ = norm(c_.args[0].args[0]) if c_.args[0].args else None
        return d_ is not None and _sh10.holds_at(c_, fnx, lambda a_: _sh10.match(f"{d_} in self._dimensions", a_) is not None, False)
    addd = [c_ for c_ in ast.walk(fnx) if isinstance(c_, ast.Call) and norm(c_.func) == "self._add_dimension" and c_.args and isinstance(c_.args[0], ast.Call) and call_name(c_.args[0]) == "DimensionDefinition"]
    ck.check(len(app) == 1 and norm(app[0].args[0]) == "definition.name" and _sh10.holds_at(app[0], fnx, is_base, True) and len(addd) >= 1 and all(_sh10.holds_at(c_, fnx, is_base, True) and unknown_dimension(c_) for c_ in addd), "G-EXH", "_add_unit|base-units-declare-their-dimensions", fn.loc(),
             "base units are recorded and declare their dimensions", "base units no longer declare their dimensions on the fly")
    fn = ix.func(PR, "GenericPlainRegistry._helper_single_adder")
    cfgs = cfg_of(fn)
    rd = shape.guard_edges(cfgs, lambda a_: isinstance(a_, ast.Compare) and isinstance(a_.ops[0], ast.Eq) and sorted([norm(a_.left), norm(a_.comparators[0])]) == sorted(["self._on_redefinition", "'raise'"]), want=True)
    ck.check(bool(rd) and all(edge_leads_only_to_raise(cfgs, x, lab) is None for (x, lab) in rd), "G-ERR", "_helper_single_adder|redefinition-raise-mode-raises", fn.loc(), "on_redefinition='raise' raises RedefinitionError", "on_redefinition='raise' no longer raises")
    fn = ix.func(PR, "GenericPlainRegistry._add_alias")
    ck.check(memo.alias_adder_facts(ix)[2], "G-ERR", "_add_alias|unknown-target-raises-KeyError", fn.loc(), "@alias of an unknown unit fails (KeyError)", "@alias no longer looks its target up")

    # ------------------------------------------------------------ (e) disk cache; (f) dependency cycles
    memo.rule_disk_cache_hit(ck, ix)
    fn = ix.func("pint.delegates.base_defparser", "build_disk_cache_class")
    fp_ = [g for g in ast.walk(fn.node) if isinstance(g, ast.FunctionDef) and g.name == "from_parsed_project"]
    ck.floor("G-MEMO-KEY", len(fp_), 1, "ParsedProjecHeader.from_parsed_project")
    for g in fp_:
        # role: every `<V>.content_hash` that enters the key belongs to a loop / comprehension variable V that runs over all
        # statements of the project and is known to be a begin-of-source statement there
        def every_source(h_):
            src_ = loop_source(h_.value, g) if isinstance(h_.value, ast.Name) else None
            return src_ is not None and src_[1] is None and shape.rnorm(src_[0], g) == "pp.iter_statements()" \
                and shape.holds_at(h_, g, lambda a_: shape.match(f"isinstance({h_.value.id}, fp.BOS)", a_) is not None, True)
        hashes = [h_ for h_ in ast.walk(g) if isinstance(h_, ast.Attribute) and h_.attr == "content_hash"]
        ok = bool(hashes) and all(every_source(h_) for h_ in hashes)
        ck.check(ok, "G-MEMO-KEY", "disk_cache|key-covers-every-loaded-source", fn.loc(g), "the build-cache key hashes the content of every loaded source (root file and imports)",
                 "the build-cache key no longer covers every begin-of-source statement of the parsed project: editing an imported file reuses a stale RegistryCache")
    fn = ix.func("pint.util", "solve_dependencies")
    ck.analysed(fn)
    cfg = cfg_of(fn)
    ys = [y.value.id for y in walk_local(fn.node) if isinstance(y, ast.Yield) and isinstance(y.value, ast.Name)]
    empty = _sh10.guard_edges(cfg, lambda a_: isinstance(a_, ast.Name) and a_.id in ys, want=False)   # edges on which the yielded "ready" set is known to be empty
    ck.check(bool(ys) and bool(empty) and all(edge_leads_only_to_raise(cfg, x, lab) is None for (x, lab) in empty), "G-DOM", "solve_dependencies|cycle-raises", fn.loc(), "an empty ready set (cycle) raises ValueError", "a dependency cycle (empty layer) no longer raises")
    parser_entry_rule(ck, ix)
    from .C08 import casei_writers_rule
    casei_writers_rule(ck, ix)  # an alias added by @alias is indexed like an inline alias
    return EXPLANATION
