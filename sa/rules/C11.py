"""C11 — context conversions apply the declared rules along a shortest chain."""
from __future__ import annotations

import ast

from .. import memo
from .. import shape as _sh
from ..flow import call_name, dotted, norm, writes_in
from ..index import AnalysisError, walk_local
from ..lib import (cfg_of, defs_of, edge_leads_only_to_raise, is_super_call, live, nodes_calling,
                   nodes_with, return_nodes, undominated, witness)

CR = "pint.facets.context.registry"
CO = "pint.facets.context.objects"
CD = "pint.facets.context.definitions"

EXPLANATION = (
    "Static analysis (no execution): typestate of the frontier in util.find_shortest_path (a deque used strictly "
    "FIFO, return at first discovery of the target, trivial path for start == end, unreachable -> None) which makes the "
    "search breadth-first and hence shortest; ContextRegistry._convert searches from the dimensionality of src to that "
    "of dst, applies the chain's transformations over consecutive pairs of the path in order, and every normal exit "
    "goes through super()._convert (same-dimension and unreachable cases meet the C01 gate); rule lookup goes through "
    "the ChainMap (newest context first: contexts and maps are prepended reversed and truncated alike, _graph reset by "
    "every editor, edges src->dst); parameter precedence call kwargs > enclosing chain defaults > declared defaults "
    "(dict(a, **b) order) and Context.transform passes the context's defaults; Relation.transformation evaluates the "
    "equation with value=...; _redefine rejects unknown, prefixed and base units and dimension changes before define. "
    "Does not evaluate any rule equation or decide numeric results.")
EXPLANATION += ' Also decided (rules added after the second round of seeded changes): the parameterised copy made by Context.from_context carries every field __init__ creates (except the triaged per-object `checked` flag); a stored overlay is never reused without rebuild.'
EXPLANATION += " Also decided (round 5): rules are re-keyed to base dimensions before the per-activation copies are made (CFG ordering); the with_context decorator hands its OWN name and keyword parameters to self.context (decided by scope: free in the wrapper, not shadowed by a wrapper parameter) and forwards the wrapper's own arguments to the function; every inserted context contributes exactly one map."



COPY_EXEMPT = {"checked": "per-object flag: a fresh copy is re-checked (rule endpoints normalised) on its first activation"}


def context_copy_rule(ck, ix):
    """Context.from_context (the parameterised copy used by `context('c', n=3)`) carries every field of the original:
    each attribute __init__ creates reaches the copy through the constructor or through an assignment from the source."""
    init = ix.func(CO, "Context.__init__")
    fc = ix.func(CO, "Context.from_context")
    ck.analysed(fc)
    fields, via_param = [], {}
    params = [a.arg for a in init.node.args.args][1:]
    for a in walk_local(init.node):
        tgt = a.targets[0] if isinstance(a, ast.Assign) else (a.target if isinstance(a, ast.AnnAssign) else None)
        if isinstance(tgt, ast.Attribute) and isinstance(tgt.value, ast.Name) and tgt.value.id == "self":
            fields.append(tgt.attr)
            val = a.value
            for nme in ast.walk(val) if val is not None else []:
                if isinstance(nme, ast.Name) and nme.id in params:
                    via_param[tgt.attr] = params.index(nme.id)
    ck.floor("G-EXH", len(fields), 5, "Context fields")
    ctor = [c for c in walk_local(fc.node) if isinstance(c, ast.Call) and norm(c.func) in ("cls", "Context")]
    ck.check(len(ctor) == 1, "G-EXH", "Context.from_context|one-constructor-call", fc.loc(), "builds one fresh Context", f"{len(ctor)} constructor calls")
    if len(ctor) != 1:
        return
    defs = defs_of(fc)
    copyname = None
    for nm, ds in defs.defs.items():
        if any(v is ctor[0] for v, k, st in ds):
            copyname = nm
    assigned = {}
    for a in walk_local(fc.node):
        if isinstance(a, ast.Assign):
            t = a.targets[0]
            base = t
            while isinstance(base, ast.Subscript):
                base = base.value
            base = _sh.unalias(base, fc.node)       # `table = copy.field; table[k] = ...` writes the copy's field
            if isinstance(base, ast.Attribute) and isinstance(base.value, ast.Name) and base.value.id == copyname:
                assigned.setdefault(base.attr, []).append(a)
    # a field of the copy may also be filled in place: `copy.field.update(...)`, `.extend(...)`, ... (receiver possibly
    # through a local alias) - it counts like `copy.field[k] = v`
    filled = {}
    for c in walk_local(fc.node):
        if isinstance(c, ast.Call) and isinstance(c.func, ast.Attribute) and c.func.attr in ("update", "extend", "append", "add", "setdefault", "insert") and (c.args or c.keywords):
            base = _sh.unalias(c.func.value, fc.node)
            if isinstance(base, ast.Attribute) and isinstance(base.value, ast.Name) and base.value.id == copyname:
                filled.setdefault(base.attr, []).append(c)
    for F in fields:
        if F in COPY_EXEMPT:
            ck.ok("G-EXH", f"Context.from_context|field|{F}", fc.loc(), "exempt: " + COPY_EXEMPT[F])
            continue
        ok, how = False, ""
        if F in via_param and via_param[F] < len(ctor[0].args):
            arg = ctor[0].args[via_param[F]]
            roots = defs.roots(arg)
            ok = f"context.{F}" in roots
            how = f"constructor argument `{norm(arg)}`"
        if not ok and F in assigned:
            for a in assigned[F]:
                roots = defs.roots(a.value)
                if f"context.{F}" in roots or (isinstance(a.targets[0], ast.Subscript) and isinstance(a.value, ast.Name) and a.value.id == copyname):
                    ok, how = True, f"`{norm(a)}`"
        for c in filled.get(F, []) if not ok else []:
            given = list(c.args) + [k.value for k in c.keywords]
            roots = set().union(*(defs.roots(x) for x in given))
            if f"context.{F}" in roots or any(isinstance(n_, ast.Name) and n_.id == copyname for x in given for n_ in ast.walk(x)):
                ok, how = True, f"`{norm(c)}`"
        ck.check(ok, "G-EXH", f"Context.from_context|field|{F}", fc.loc(), f"{F} carried over by {how}",
                 f"the parameterised copy made by Context.from_context does not receive `{F}` from the original: activating the context with keyword parameters silently loses its {F}")

PAIRS_OF = ("zip(_P[:-1], _P[1:])", "zip(_P, _P[1:])", "itertools.pairwise(_P)", "pairwise(_P)")


def _m(pattern, e, fn=None):
    """shape.match of `e` as written, else (inside `fn`) with local temporaries resolved"""
    b = _sh.match(pattern, e)
    if b is None and fn is not None:
        b = _sh.match(pattern, _sh.resolve(e, fn))
    return b


def _names_bound_to(fi, pred) -> set:
    """local names every plain assignment of which binds a value satisfying `pred` (found by role, not by spelling)"""
    out = set()
    for nm, ds in defs_of(fi).defs.items():
        vals = [v for v, k, s_ in ds if k == "assign"]
        if vals and len(vals) == len([d for d in ds if d[1] != "fill"]) and all(v is not None and pred(v) for v in vals) and nm not in defs_of(fi).params:
            out.add(nm)
    return out


def run(ck, ix, tier):
    ck.rule("G-TYPESTATE", "a container is used with a single queue discipline")
    # ------------------------------------------------------------ find_shortest_path
    fi = ix.func("pint.util", "find_shortest_path")
    ck.analysed(fi)
    fn = fi.node
    defs = defs_of(fi)
    cfg = cfg_of(fi)
    q = sorted(_names_bound_to(fi, lambda v: isinstance(v, ast.Call) and call_name(v) == "deque"))
    if not q:
        raise AnalysisError("find_shortest_path: no deque frontier found (unrecognised search idiom)")
    q = q[0]
    ops = [call_name(c) for c in walk_local(fn) if isinstance(c, ast.Call) and isinstance(c.func, ast.Attribute) and dotted(c.func.value) == q]
    fifo = set(ops) <= {"append", "popleft", "extend"} and "popleft" in ops
    fifo2 = set(ops) <= {"appendleft", "pop", "extendleft"} and "pop" in ops
    ck.check(fifo or fifo2, "G-TYPESTATE", "find_shortest_path|frontier-is-fifo", fi.loc(),
             f"frontier `{q}` used with {sorted(set(ops))}: first-in first-out, i.e. breadth-first",
             f"frontier `{q}` is used with {sorted(set(ops))}: not a FIFO queue, so the first path found need not be a shortest one")
    # the entry taken from the frontier is unpacked into (current node, current path)
    taken = [a for a in walk_local(fn) if isinstance(a, ast.Assign) and isinstance(a.targets[0], ast.Tuple) and len(a.targets[0].elts) == 2
             and all(isinstance(e, ast.Name) for e in a.targets[0].elts)
             and isinstance(_sh.unalias(a.value, fn), ast.Call) and isinstance(_sh.unalias(a.value, fn).func, ast.Attribute)
             and dotted(_sh.unalias(a.value, fn).func.value) == q and call_name(_sh.unalias(a.value, fn)) in ("popleft", "pop")]
    ck.floor("G-TYPESTATE", len(taken), 1, "frontier entry unpacked into (node, path)")
    cur, pth = [e.id for e in taken[0].targets[0].elts]

    def extended_by(e, node_txt):
        """e is (a name for) <current path> + [<node>]"""
        b = _m("_P + [_N]", _sh.unalias(e, fn))
        return b is not None and b["_P"] == pth and b["_N"] == node_txt

    def is_target_test(a, trivial):
        if not (isinstance(a, ast.Compare) and len(a.ops) == 1 and isinstance(a.ops[0], ast.Eq)):
            return False
        sides = [norm(a.left), norm(a.comparators[0])]
        return "end" in sides and (("start" in sides) == trivial)

    def other_side(a):
        return norm(a.comparators[0]) if norm(a.left) == "end" else norm(a.left)
    # first discovery returns (whichever way the test is written)
    inner = []
    for n in cfg.nodes:
        if n.kind == "test" and n.ast is not None:
            for lab in ("t", "f"):
                for at, truth in _sh.conjuncts(n.ast, lab):
                    if truth and is_target_test(at, False):
                        inner.append((n, lab, other_side(at)))
    ck.check(bool(inner), "G-TYPESTATE", "find_shortest_path|target-test-on-discovery", fi.loc(), "neighbours are compared with the target when discovered",
             "neighbours are no longer compared with the target on discovery")
    for n, lab, found in inner:
        succ = [v for (v, l2) in cfg.succ[n.id] if l2 == lab]
        ok = all(isinstance(cfg.nodes[s].ast, ast.Return) for s in succ) and bool(succ)
        ck.check(ok, "G-TYPESTATE", "find_shortest_path|returns-at-first-discovery", fi.loc(n.ast), "returns as soon as the target is discovered",
                 "the search continues after the target was discovered (a later, longer path can be returned)")
        for s in succ:
            r = cfg.nodes[s].ast
            if isinstance(r, ast.Return) and r.value is not None:
                ck.check(extended_by(r.value, found), "G-PROV", "find_shortest_path|returned-path-extends-current-path", fi.loc(r), "returns path + [target]", f"`{norm(r)}` is not the current path extended by the discovered node")
    triv = _sh.guard_edges(cfg, lambda a: is_target_test(a, True), want=True)
    ck.check(bool(triv), "G-TYPESTATE", "find_shortest_path|trivial-path", fi.loc(), "start == end returns the trivial path", "start == end is no longer answered with the trivial path")
    # expansion appends path + [node]; visited set prevents revisits
    apps = [c for c in walk_local(fn) if isinstance(c, ast.Call) and call_name(c) in ("append", "appendleft") and isinstance(c.func, ast.Attribute) and dotted(c.func.value) == q and c.args]
    expansions = []
    for c in apps:
        a = _sh.unalias(c.args[0], fn)
        if isinstance(a, ast.Tuple) and len(a.elts) == 2:
            node, p2 = a.elts
            if norm(node) == "start":
                continue
            expansions.append((c, norm(node)))
            ck.check(extended_by(p2, norm(node)), "G-PROV", "find_shortest_path|frontier-entry-carries-extended-path", fi.loc(c), "frontier entries carry path + [node]", f"`{norm(c)}` does not carry the path extended by the node")
    ck.floor("G-TYPESTATE", len(expansions), 1, "frontier expansion in find_shortest_path")
    # a set collects the nodes taken from the frontier, and a neighbour in that set is not put on the frontier again:
    # the neighbours iterated are `graph[node] - S`, or the expansion is on the `n not in S` side of a membership test
    seen_sets = {dotted(c.func.value) for c in walk_local(fn) if isinstance(c, ast.Call) and call_name(c) == "add" and isinstance(c.func, ast.Attribute)
                 and isinstance(c.func.value, ast.Name) and c.args and norm(c.args[0]) in ({cur} | {n_ for _, n_ in expansions})}
    skipped = False
    for c, node_txt in expansions:
        loop = memo.enclosing(c, (ast.For,), fn)
        if loop is not None and isinstance(loop.target, ast.Name) and loop.target.id == node_txt:
            b = _m("graph[_C] - _S", loop.iter, fn)
            skipped = skipped or (b is not None and b["_S"] in seen_sets)
        skipped = skipped or _sh.holds_at(c, fn, lambda a: isinstance(a, ast.Compare) and isinstance(a.ops[0], ast.In) and norm(a.left) == node_txt and norm(a.comparators[0]) in seen_sets, False)
    ck.check(skipped, "G-TYPESTATE", "find_shortest_path|visited-nodes-skipped", fi.loc(),
             "visited nodes are not expanded again", "visited nodes are expanded again (termination / shortest path not guaranteed)")
    last = [r for r in walk_local(fn) if isinstance(r, ast.Return)]
    ck.check(any(norm(r.value) == "None" for r in last), "G-PROV", "find_shortest_path|unreachable-gives-none", fi.loc(), "unreachable target gives None", "an unreachable target no longer yields None")

    # ------------------------------------------------------------ ContextRegistry._convert
    fi = ix.func(CR, "GenericContextRegistry._convert")
    ck.analysed(fi)
    fn = fi.node
    cfg, defs = cfg_of(fi), defs_of(fi)
    sp = [c for c in walk_local(fn) if isinstance(c, ast.Call) and call_name(c) == "find_shortest_path"]
    ck.floor("G-PROV", len(sp), 1, "find_shortest_path call in ContextRegistry._convert")
    for c in sp:
        a = [defs.inline(x) for x in c.args]
        ok = len(a) == 3 and norm(a[0]) == "self._active_ctx.graph" and norm(a[1]) == "self._get_dimensionality(src)" and norm(a[2]) == "self._get_dimensionality(dst)"
        ck.check(ok, "G-PROV", "ctx_convert|path-from-src-dim-to-dst-dim", fi.loc(c), "path searched in the active graph from dim(src) to dim(dst)",
                 f"`{norm(c)}` (after inlining: {[norm(x) for x in a]}) is not a search from dim(src) to dim(dst) in the active graph")
    # the loop that applies the chain's transformations runs over the consecutive pairs of the path that was found
    found_path = _names_bound_to(fi, lambda v: isinstance(v, ast.Call) and call_name(v) == "find_shortest_path")
    loops = [f for f in walk_local(fn) if isinstance(f, ast.For) and any(isinstance(c, ast.Call) and call_name(c) == "transform" for c in ast.walk(f))]
    ck.floor("G-PROV", len(loops), 1, "loop over consecutive path nodes")
    for f in loops:
        bs = [b for b in (_m(pat, f.iter, None) or _m(pat, defs.inline(f.iter), None) for pat in PAIRS_OF) if b is not None]
        ok = bool(bs) and (bs[0]["_P"] in found_path or bs[0]["_P"].startswith("find_shortest_path("))
        ck.check(ok and isinstance(f.target, ast.Tuple) and len(f.target.elts) == 2, "G-PROV", "ctx_convert|consecutive-pairs-in-path-order", fi.loc(f), "rules applied over consecutive pairs of the path, in order",
                 f"`{norm(f.iter)}` does not enumerate consecutive (a, b) pairs of the path in order")
        if not (isinstance(f.target, ast.Tuple) and len(f.target.elts) == 2):
            continue
        a, b = [norm(e) for e in f.target.elts]
        tr = [c for c in ast.walk(f) if isinstance(c, ast.Call) and call_name(c) == "transform"]
        for c in tr:
            args = [norm(x) for x in c.args]
            tgt = getattr(c, "_parent", None)
            same_var = isinstance(tgt, ast.Assign) and len(args) == 4 and norm(tgt.targets[0]) == args[3]
            ck.check(args[:3] == [a, b, "self"] and same_var and _sh.rnorm(c.func, fn) == "self._active_ctx.transform", "G-PROV", "ctx_convert|transform-chained", fi.loc(c),
                     "each step transforms the running value from a to b through the active chain",
                     f"`{norm(tgt) if tgt is not None else norm(c)}` does not chain the running value through transform({a}, {b}, self, value)")
    active = _sh.guard_edges(cfg, lambda a_: _sh.rnorm(a_, fn) == "self._active_ctx", want=True)      # possibly through a local alias of the chain
    spn = nodes_with(cfg, lambda x: isinstance(x, ast.Call) and call_name(x) == "find_shortest_path")
    ck.check(bool(active) and _sh.reachable_without(cfg, live(cfg, spn), active) is None, "G-DOM", "ctx_convert|rules-only-with-active-contexts", fi.loc(), "rules are only consulted while contexts are active", "the rule graph is searched although no context is active (the active-context test is gone)")
    # delegation (shared with C01): every normal exit through super()._convert
    sup = nodes_with(cfg, lambda x: is_super_call(x, "_convert"))
    p = cfg.all_paths_pass(cfg.entry, [cfg.exit], sup)
    ck.check(bool(sup) and p is None, "G-DOM", "ctx_convert|every-normal-exit-through-super-convert", fi.loc(),
             "every normal exit delegates to super()._convert", "a normal exit bypasses super()._convert", witness(cfg, p))
    # what is delegated is the running (value, units) pair - the parameters themselves, rebound or not - or the
    # magnitude and units of one and the same transformed quantity - and the destination
    for c in [x for x in walk_local(fn) if is_super_call(x, "_convert")]:
        a3 = [norm(a) for a in c.args][:3]
        split = len(c.args) >= 2 and all(isinstance(x, ast.Attribute) for x in c.args[:2]) and c.args[0].attr == "_magnitude" and c.args[1].attr == "_units" \
            and norm(c.args[0].value) == norm(c.args[1].value) and "call:transform" in defs.roots(c.args[0].value)
        ck.check(len(a3) == 3 and a3[2] == "dst" and (a3[:2] == ["value", "src"] or split), "G-PROV", "ctx_convert|delegates-transformed-value-and-units", fi.loc(c),
                 "delegates (value, src, dst)", f"`{norm(c)}` does not pass the (transformed) value, its units and the destination")
    unpack = [a for a in walk_local(fn) if isinstance(a, ast.Assign) and isinstance(a.targets[0], ast.Tuple) and [norm(e) for e in a.targets[0].elts] == ["value", "src"]]
    for a in unpack:
        e_ = a.value.elts if isinstance(a.value, ast.Tuple) and len(a.value.elts) == 2 else [None, None]
        oku = all(isinstance(x, ast.Attribute) for x in e_) and e_[0].attr == "_magnitude" and e_[1].attr == "_units" and norm(e_[0].value) == norm(e_[1].value)
        ck.check(oku, "G-PROV", "ctx_convert|unpacks-magnitude-and-units", fi.loc(a), "value, src = magnitude, units of the transformed quantity",
                 f"`{norm(a)}` does not unpack (magnitude, units) in that order")

    # ------------------------------------------------------------ chain lookup and bookkeeping
    memo.rule_context_chain_graph(ck, ix)
    memo.rule_context_overlay(ck, ix)
    memo.rule_overlay_not_reused(ck, ix)  # conversions under a context read the units/cache installed by the switch
    fi = ix.func(CO, "ContextChain.transform")
    ck.analysed(fi)
    r = [x for x in walk_local(fi.node) if isinstance(x, ast.Return)]
    ok = len(r) == 1 and _sh.rnorm(r[0].value, fi.node) in ("self[src, dst].transform(src, dst, registry, value)", "self[(src, dst)].transform(src, dst, registry, value)")
    ck.check(ok, "G-PROV", "ContextChain.transform|first-map-with-rule-wins", fi.loc(), "rule looked up through the ChainMap (newest context first) and applied with (src, dst, registry, value)",
             f"`{norm(r[0]) if r else '?'}` is not the ChainMap lookup of (src, dst) applied to the value")
    fi = ix.func(CO, "Context.transform")
    ck.analysed(fi)
    # the rule function is whatever is called with the value: a call whose callee resolves to a read of self.funcs
    calls = [(c, _sh.resolve(c, fi.node)) for c in walk_local(fi.node) if isinstance(c, ast.Call)]
    calls = [(c, rc) for c, rc in calls if isinstance(rc.func, ast.Subscript) and norm(rc.func.value) == "self.funcs"]
    ck.floor("G-PROV", len(calls), 1, "rule function call in Context.transform")
    for c, rc in calls:
        ok = [norm(a) for a in rc.args] == ["registry", "value"] and any(k.arg is None and norm(k.value) == "self.defaults" for k in rc.keywords)
        ck.check(ok, "G-PROV", "Context.transform|rule-called-with-context-parameters", fi.loc(c), "func(registry, value, **self.defaults)", f"`{norm(c)}` does not pass the context's parameters")
        ck.check(norm(rc.func.slice) in ("self.__keytransform__(src, dst)",), "G-PROV", "Context.transform|rule-selected-by-src-dst", fi.loc(c),
                 "rule selected by (src, dst)", "the rule is not selected by the (src, dst) key")
    fi = ix.func(CO, "Context.__keytransform__")
    r = [x for x in walk_local(fi.node) if isinstance(x, ast.Return)]
    ck.check(len(r) == 1 and _sh.rnorm(r[0].value, fi.node) == "(to_units_container(src), to_units_container(dst))", "G-PROV", "Context.__keytransform__|src-dst-order", fi.loc(),
             "key is (src, dst)", f"`{norm(r[0]) if r else '?'}` is not the (src, dst) key")
    fi = ix.func(CO, "ContextChain.defaults")
    ck.analysed(fi)
    # the first context met when iterating the chain (newest first) answers: an unconditional `return <ctx>.defaults`
    # inside the loop over self.values()
    newest = False
    for lp in [l for l in walk_local(fi.node) if isinstance(l, ast.For) and isinstance(l.target, ast.Name) and _sh.rnorm(l.iter, fi.node) == "self.values()"]:
        for r_ in [x for x in ast.walk(lp) if isinstance(x, ast.Return) and x.value is not None]:
            b = _m("_C.defaults", r_.value, fi.node)
            newest = newest or (b is not None and b["_C"] == lp.target.id and not _sh.facts_at(r_, lp) and memo.enclosing(r_, (ast.For, ast.While), lp) is None)
    # ... or the first element of that iteration taken with next(iter(self.values())[, default]) answers
    dd = defs_of(fi)
    for r_ in [x for x in walk_local(fi.node) if isinstance(x, ast.Return) and x.value is not None]:
        for alt in memo.alternatives(r_.value):
            v_ = dd.inline(alt)
            newest = newest or _sh.match("next(iter(self.values())).defaults", v_) is not None or _sh.match("next(iter(self.values()), _D).defaults", v_) is not None
    ck.check(newest, "G-PROV", "ContextChain.defaults|newest-context-defaults", fi.loc(),
             "enclosing defaults are those of the most recently enabled context", "ContextChain.defaults no longer returns the first (newest) context's defaults")

    # ------------------------------------------------------------ parameter precedence
    fi = ix.func(CR, "GenericContextRegistry.enable_contexts")
    ck.analysed(fi)
    dcalls = [a for a in walk_local(fi.node) if isinstance(a, ast.Assign) and norm(a.targets[0]) == "kwargs"]
    ck.floor("G-PROV", len(dcalls), 1, "merge of enclosing defaults into kwargs")
    # every value kwargs may be given (the branches of a conditional expression; kwargs itself = left as it is)
    merges = [(a, v) for a in dcalls for v in memo.alternatives(a.value) if norm(v) != "kwargs"]
    ck.floor("G-PROV", len(merges), 1, "merge of enclosing defaults into kwargs")
    for a, v in merges:
        un = lambda e: _sh.unalias(e, fi.node)
        if isinstance(v, ast.Call) and v.args:
            v = ast.Call(func=v.func, args=[un(v.args[0])] + list(v.args[1:]), keywords=v.keywords)
        elif isinstance(v, ast.Dict):
            v = ast.Dict(keys=v.keys, values=[un(x) for x in v.values])
        elif isinstance(v, ast.BinOp):
            v = ast.BinOp(left=un(v.left), op=v.op, right=v.right)
        ok = (isinstance(v, ast.Call) and call_name(v) == "dict" and len(v.args) == 1 and norm(v.args[0]) == "self._active_ctx.defaults"
              and any(k.arg is None and norm(k.value) == "kwargs" for k in v.keywords)) or \
             (isinstance(v, ast.Dict) and [norm(x) for x in v.values] == ["self._active_ctx.defaults", "kwargs"] and all(k is None for k in v.keys)) or \
             (isinstance(v, ast.BinOp) and isinstance(v.op, ast.BitOr) and norm(v.left) == "self._active_ctx.defaults" and norm(v.right) == "kwargs")
        ck.check(ok, "G-PROV", "enable_contexts|call-kwargs-override-enclosing-defaults", fi.loc(a), "call keyword arguments override the enclosing chain's defaults",
                 f"`{norm(a)}` does not let the call's keyword arguments override the enclosing defaults")
    # endpoint normalisation on first activation (the `checked` flag): a rule is moved from its (src, dst) key to the key
    # made of the dimensionalities of src and dst exactly when the two keys differ
    fnx = memo.looked_through(ix, fi).node      # an extracted private helper (method or module function) is looked through
    moved = [c for c in ast.walk(fnx) if isinstance(c, ast.Call) and call_name(c) == "remove_transformation" and not _sh.dead(c, fnx)]
    ck.floor("G-PROV", len(moved), 1, "endpoint normalisation test in enable_contexts")
    for rm in moved:
        loop = memo.enclosing(rm, (ast.For,), fnx)
        ad = [c for c in ast.walk(loop if loop is not None else fnx) if isinstance(c, ast.Call) and call_name(c) == "add_transformation"]
        olds = [norm(a) for a in rm.args]
        ok2 = len(ad) == 1 and len(olds) == 2 and len(ad[0].args) == 3
        news = []
        if ok2:
            news = [norm(a) for a in ad[0].args[:2]]
            based = [_sh.unalias(a, fnx) for a in ad[0].args[:2]]
            ok2 = all(isinstance(nw, ast.Call) and call_name(nw) in ("get_dimensionality", "_get_dimensionality") and [norm(x) for x in nw.args] == [o] for nw, o in zip(based, olds)) \
                and isinstance(ad[0].args[2], ast.Name) and not isinstance(_sh.unalias(ad[0].args[2], fnx), ast.Call)
        # the guard: known where the rule is removed = "not (src == src' and dst == dst')", and nothing stronger
        want = {frozenset(p_) for p_ in zip(olds, news)}
        excl = []
        for ex in memo.excluded_conjunctions(rm, fnx):
            pairs = [frozenset((norm(at.left), norm(at.comparators[0]))) for at, tr in ex if isinstance(at, ast.Compare) and len(at.ops) == 1 and isinstance(at.ops[0], ast.Eq) and tr]
            if len(pairs) == len(ex) and any(p_ in want for p_ in pairs):
                excl.append(set(pairs))
        ok = bool(news) and excl == [want]
        test = memo.enclosing(rm, (ast.If,), fnx)
        ck.check(ok, "G-PROV", "enable_contexts|rule-renormalised-if-either-endpoint-differs", fi.loc(rm),
                 "a rule is re-keyed when either endpoint is not in base dimensions",
                 f"`{norm(test.test) if test is not None else norm(rm)}`: a rule whose source *or* target is a derived dimension must be re-keyed to base dimensions (otherwise the path search never finds it)")
        ck.check(ok2, "G-PROV", "enable_contexts|rule-rekeyed-to-base-dimensions", fi.loc(rm), "old key removed, same function added under the base-dimension key",
                 "the rule is not moved from (src, dst) to (base src, base dst) with the same function")
    # ordering: the per-activation copies are taken from contexts whose rules have ALREADY been re-keyed to base
    # dimensions (a copy shares the rule functions but keeps its own key -> context map, which would stay un-normalised)
    cfg_e = cfg_of(fi)
    copies = nodes_calling(cfg_e, "from_context")
    rekeys = nodes_calling(cfg_e, "add_transformation", "remove_transformation")
    if copies and rekeys:
        # a loop that holds both the copy and the re-keying handles one context per iteration: the next iteration's
        # re-keying is of another context, so paths through that loop's header do not count
        both = [l_ for l_ in walk_local(fi.node) if isinstance(l_, ast.For)
                and any(isinstance(c_, ast.Call) and call_name(c_) == "from_context" for c_ in ast.walk(l_))
                and any(isinstance(c_, ast.Call) and call_name(c_) in ("add_transformation", "remove_transformation") for c_ in ast.walk(l_))]
        headers = [i_ for l_ in both for i_ in cfg_e.nodes_for_ast(l_)]
        after = cfg_e.reach([v for c_ in copies for (v, lab) in cfg_e.succ[c_]], avoid=headers)
        late = [r_ for r_ in rekeys if r_ in after]
        ck.check(not late, "G-PAIR", "enable_contexts|rules-rekeyed-before-contexts-are-copied", fi.loc(cfg_e.nodes[late[0]].ast) if late else fi.loc(),
                 "rules are normalised to base dimensions before the parameterised copies are made",
                 "a rule can be re-keyed to base dimensions after Context.from_context has copied the context: the copy's rule index keeps the un-normalised endpoints and its first activation cannot find the rule")
    from .C12 import with_context_rule
    with_context_rule(ck, ix)      # parameters of the decorator form reach the context (not the call's own kwargs)
    fc = [c for c in walk_local(fi.node) if isinstance(c, ast.Call) and call_name(c) == "from_context"]
    ck.floor("G-PROV", len(fc), 1, "from_context call")
    for c in fc:
        ck.check(any(k.arg is None and norm(k.value) == "kwargs" for k in c.keywords), "G-PROV", "enable_contexts|contexts-parameterised-with-merged-kwargs", fi.loc(c),
                 "contexts parameterised with the merged kwargs", f"`{norm(c)}` does not pass the merged kwargs")
    fi = ix.func(CO, "Context.from_context")
    nd11 = [c_ for c_ in walk_local(fi.node) if isinstance(c_, ast.Call) and call_name(c_) == "dict" and "defaults" in norm(c_)]
    ck.floor("G-PROV", len(nd11), 1, "merge of declared defaults and passed values in Context.from_context")
    for a in nd11:
        c = a
        ok = len(c.args) == 1 and norm(c.args[0]) == "context.defaults" and any(k.arg is None and norm(k.value) == "defaults" for k in c.keywords)
        ck.check(ok, "G-PROV", "Context.from_context|passed-defaults-override-declared", fi.loc(a), "passed values override declared defaults", f"`{norm(c)}` reverses the override order")
    # name / alias resolution of contexts: stored under context.name and, in a loop over context.aliases, under each alias
    fi = ix.func(CR, "GenericContextRegistry.add_context")
    ck.analysed(fi)
    roles, keys = set(), []
    for (p, k, n) in writes_in(fi.node):
        if p != "self._contexts" or not isinstance(n, ast.Assign):
            continue
        for t in n.targets:
            if not (isinstance(t, ast.Subscript) and dotted(t.value) == "self._contexts"):
                continue
            keys.append(norm(t.slice))
            loop = memo.enclosing(n, (ast.For,), fi.node)
            if norm(t.slice) == "context.name" and norm(n.value) == "context":
                roles.add("name")
            elif loop is not None and isinstance(loop.target, ast.Name) and norm(t.slice) == loop.target.id and _sh.rnorm(loop.iter, fi.node) == "context.aliases" and norm(n.value) == "context":
                roles.add("alias")
            else:
                roles.add("other:" + norm(t.slice))
    ck.check(roles == {"name", "alias"}, "G-PROV", "add_context|registered-under-name-and-aliases", fi.loc(), "registered under name and every alias", f"contexts are registered under {sorted(keys)}")

    # ------------------------------------------------------------ rule equation evaluation
    fi = ix.func(CD, "Relation.transformation")
    ck.analysed(fi)
    lam = [l for l in ast.walk(fi.node) if isinstance(l, ast.Lambda)]
    ck.floor("G-PROV", len(lam), 1, "transformation lambda")
    for l in lam:
        c = l.body
        ok = isinstance(c, ast.Call) and call_name(c) == "parse_expression" and norm(c.args[0]) == "self.equation" and any(k.arg == "value" and norm(k.value) == "value" for k in c.keywords) \
            and any(k.arg is None and norm(k.value) == "kwargs" for k in c.keywords)
        ck.check(ok, "G-PROV", "Relation.transformation|equation-evaluated-with-value-and-parameters", fi.loc(l), "equation evaluated with value=value and the parameters",
                 f"`{norm(l)}` does not evaluate the equation with value and parameters")
    fi = ix.func(CO, "Context.from_definition")
    ck.analysed(fi)
    defs = defs_of(fi)
    # in the loop over the declared relations R: the rule R.transformation is registered from (what derives from) R.src to
    # (what derives from) R.dst unconditionally, and the other way round exactly when R.bidirectional
    rel_loops = [l for l in walk_local(fi.node) if isinstance(l, ast.For) and isinstance(l.target, ast.Name) and _sh.rnorm(l.iter, fi.node).endswith(".relations")]
    ck.floor("G-PROV", len(rel_loops), 1, "loop over the relations of the context definition")
    fwd, rev, args = [], [], []
    for l in rel_loops:
        R = l.target.id
        for c in [c for c in ast.walk(l) if isinstance(c, ast.Call) and call_name(c) == "add_transformation" and len(c.args) == 3]:
            args.append([norm(a) for a in c.args])
            r0, r1 = defs.roots(c.args[0]), defs.roots(c.args[1])
            if _sh.rnorm(c.args[2], fi.node) != f"{R}.transformation":
                continue
            bidir = [tr for at, tr in _sh.facts_at(c, fi.node) if norm(at) == f"{R}.bidirectional"]
            if f"{R}.src" in r0 and f"{R}.dst" in r1 and f"{R}.dst" not in r0 and f"{R}.src" not in r1:
                fwd.append((c, bidir))
            elif f"{R}.dst" in r0 and f"{R}.src" in r1 and f"{R}.src" not in r0 and f"{R}.dst" not in r1:
                rev.append((c, bidir))
    ck.check(any(not bidir for c, bidir in fwd), "G-PROV", "Context.from_definition|forward-rule", fi.loc(), "forward rule src->dst registered", f"rules registered: {args}")
    ok = bool(rev) and all(bidir == [True] for c, bidir in rev)
    ck.check(ok, "G-PROV", "Context.from_definition|reverse-rule-only-if-bidirectional", fi.loc(), "reverse rule only for <->", "the reverse rule is not registered exactly for bidirectional relations")

    # ------------------------------------------------------------ _redefine gates
    fi = ix.func(CR, "GenericContextRegistry._redefine")
    ck.analysed(fi)
    cfg = cfg_of(fi)
    defs = defs_of(fi)
    sink = nodes_calling(cfg, "define")
    ck.floor("G-DOM", len(sink), 1, "define call in _redefine")
    inl = lambda e: defs.inline(e)          # local temporaries replaced by what they stand for (parameters are kept)

    def is_candidates(a):
        v = inl(a)
        return isinstance(a, ast.Name) and isinstance(v, ast.Call) and call_name(v) == "parse_unit_name" and [norm(x) for x in v.args] == ["definition.name"]

    def is_unprefixed_candidates(a):
        v = inl(a)
        if not (isinstance(a, ast.Name) and isinstance(v, (ast.ListComp, ast.GeneratorExp)) and len(v.generators) == 1):
            return False
        g = v.generators[0]
        src_ok = isinstance(g.iter, ast.Call) and call_name(g.iter) == "parse_unit_name"
        # selects the candidates whose prefix (first component) is empty
        sel = any(not tr and isinstance(at, ast.Subscript) and norm(at.value) == norm(g.target) and norm(at.slice) == "0" for i in g.ifs for at, tr in _sh.conjuncts(i, "t"))
        return src_ok and sel and norm(v.elt) == norm(g.target)

    def is_base_flag(a):
        return _sh.match("self._units[_N].is_base", inl(a)) is not None

    def dim_sides(a):
        if not (isinstance(a, ast.Compare) and len(a.ops) == 1 and isinstance(a.ops[0], ast.Eq)):
            return None
        bs = [_sh.match("self._get_dimensionality(_R)", inl(x)) for x in (a.left, a.comparators[0])]
        return [b["_R"] for b in bs] if all(b is not None for b in bs) else None
    # (gate name, atom predicate, truth of the atom on the way to `define`)
    gates = (("unknown-unit", is_candidates, True), ("prefixed-name", is_unprefixed_candidates, True),
             ("base-unit", is_base_flag, False), ("dimension-change", lambda a: dim_sides(a) is not None, True))
    for name, pred, want in gates:
        safe = _sh.guard_edges(cfg, pred, want=want)
        if not safe:
            ck.fail("G-DOM", f"_redefine|{name}-rejected", fi.loc(), f"the `{name}` rejection test is gone")
            continue
        for s in live(cfg, sink):
            p = _sh.reachable_without(cfg, [s], safe)
            ck.check(p is None, "G-DOM", f"_redefine|{name}-rejected", fi.loc(cfg.nodes[safe[0][0]].ast), f"{name} tested before define", f"define reachable without the {name} test", witness(cfg, p))
        for (t, lab) in sorted(set(safe)):
            p = edge_leads_only_to_raise(cfg, t, _sh.other(lab), also_forbid=sink)
            ck.check(p is None, "G-DOM", f"_redefine|{name}-raises", fi.loc(cfg.nodes[t].ast), f"{name} raises", f"{name} does not raise before define", witness(cfg, p))
    # the two dimensionalities compared: of the registry's current definition (old) and of the redefinition (new)
    compared = [dim_sides(at) for n in cfg.nodes if n.kind == "test" and n.ast is not None for at, _ in _sh.conjuncts(n.ast, "t") if dim_sides(at) is not None]
    refs = [r for sides in compared for r in sides]
    for nm, pat, what in (("dims_old", "self._units[_N].reference", "the registry's definition"), ("dims_new", "definition.reference", "the redefinition")):
        ok = any(_sh.match(pat, ast.parse(r, mode="eval").body) is not None for r in refs) and all(len(set(sides)) == 2 for sides in compared)
        ck.check(ok, "G-PROV", f"_redefine|{nm}", fi.loc(), f"{nm} = dimensionality of the reference of {what}", f"{nm}: the dimensionality of the reference of {what} is not one of the compared values {refs}")
    # rebuilt definition keeps name/symbol/aliases of the registry's unit and takes reference+converter of the redefinition
    ud = [c for c in walk_local(fi.node) if isinstance(c, ast.Call) and call_name(c) == "UnitDefinition"]
    for c in ud:
        kw = {k.arg: norm(inl(k.value)) for k in c.keywords}
        shown = {k.arg: norm(k.value) for k in c.keywords}
        want_kw = {"name": "self._units[_N].name", "defined_symbol": "self._units[_N].symbol", "aliases": "self._units[_N].aliases", "reference": "definition.reference", "converter": "definition.converter"}
        bnd = {}
        ok = set(kw) == set(want_kw)
        for k_, pat in want_kw.items():
            b = _sh.match(pat, ast.parse(kw[k_], mode="eval").body) if k_ in kw else None
            ok = ok and b is not None and bnd.setdefault("_N", b.get("_N", bnd.get("_N"))) == b.get("_N", bnd.get("_N"))
        ck.check(ok, "G-PROV", "_redefine|rebuilt-definition-fields", fi.loc(c), "identity from the registry, value from the redefinition", f"rebuilt definition fields are {shown}")
    context_copy_rule(ck, ix)
    return EXPLANATION
