"""C11 — context conversions apply the declared rules along a shortest chain."""
from __future__ import annotations

import ast

from .. import memo
from ..flow import call_name, dotted, norm, writes_in
from ..index import AnalysisError, walk_local
from ..lib import (cfg_of, defs_of, edge_leads_only_to_raise, is_super_call, live, nodes_calling,
                   nodes_with, return_nodes, undominated, witness)

CR = "pint.facets.context.registry"
CO = "pint.facets.context.objects"
CD = "pint.facets.context.definitions"

EXPLANATION = (
    "Static analysis (no execution): typestate of the frontier in util.find_shortest_path (a deque used strictly "
    "FIFO, return at first discovery of the target, trivial path for start == end, unreachable -> None) which makes the "
    "search breadth-first and hence shortest; ContextRegistry._convert searches from the dimensionality of src to that "
    "of dst, applies the chain's transformations over consecutive pairs of the path in order, and every normal exit "
    "goes through super()._convert (same-dimension and unreachable cases meet the C01 gate); rule lookup goes through "
    "the ChainMap (newest context first: contexts and maps are prepended reversed and truncated alike, _graph reset by "
    "every editor, edges src->dst); parameter precedence call kwargs > enclosing chain defaults > declared defaults "
    "(dict(a, **b) order) and Context.transform passes the context's defaults; Relation.transformation evaluates the "
    "equation with value=...; _redefine rejects unknown, prefixed and base units and dimension changes before define. "
    "Does not evaluate any rule equation or decide numeric results.")
EXPLANATION += ' Also decided (rules added after the second round of seeded changes): the parameterised copy made by Context.from_context carries every field __init__ creates (except the triaged per-object `checked` flag); a stored overlay is never reused without rebuild.'



COPY_EXEMPT = {"checked": "per-object flag: a fresh copy is re-checked (rule endpoints normalised) on its first activation"}


def context_copy_rule(ck, ix):
    """Context.from_context (the parameterised copy used by `context('c', n=3)`) carries every field of the original:
    each attribute __init__ creates reaches the copy through the constructor or through an assignment from the source."""
    init = ix.func(CO, "Context.__init__")
    fc = ix.func(CO, "Context.from_context")
    ck.analysed(fc)
    fields, via_param = [], {}
    params = [a.arg for a in init.node.args.args][1:]
    for a in walk_local(init.node):
        tgt = a.targets[0] if isinstance(a, ast.Assign) else (a.target if isinstance(a, ast.AnnAssign) else None)
        if isinstance(tgt, ast.Attribute) and isinstance(tgt.value, ast.Name) and tgt.value.id == "self":
            fields.append(tgt.attr)
            val = a.value
            for nme in ast.walk(val) if val is not None else []:
                if isinstance(nme, ast.Name) and nme.id in params:
                    via_param[tgt.attr] = params.index(nme.id)
    ck.floor("G-EXH", len(fields), 5, "Context fields")
    ctor = [c for c in walk_local(fc.node) if isinstance(c, ast.Call) and norm(c.func) in ("cls", "Context")]
    ck.check(len(ctor) == 1, "G-EXH", "Context.from_context|one-constructor-call", fc.loc(), "builds one fresh Context", f"{len(ctor)} constructor calls")
    if len(ctor) != 1:
        return
    defs = defs_of(fc)
    copyname = None
    for nm, ds in defs.defs.items():
        if any(v is ctor[0] for v, k, st in ds):
            copyname = nm
    assigned = {}
    for a in walk_local(fc.node):
        if isinstance(a, ast.Assign):
            t = a.targets[0]
            base = t
            while isinstance(base, ast.Subscript):
                base = base.value
            if isinstance(base, ast.Attribute) and isinstance(base.value, ast.Name) and base.value.id == copyname:
                assigned.setdefault(base.attr, []).append(a)
    for F in fields:
        if F in COPY_EXEMPT:
            ck.ok("G-EXH", f"Context.from_context|field|{F}", fc.loc(), "exempt: " + COPY_EXEMPT[F])
            continue
        ok, how = False, ""
        if F in via_param and via_param[F] < len(ctor[0].args):
            arg = ctor[0].args[via_param[F]]
            roots = defs.roots(arg)
            ok = f"context.{F}" in roots
            how = f"constructor argument `{norm(arg)}`"
        if not ok and F in assigned:
            for a in assigned[F]:
                roots = defs.roots(a.value)
                if f"context.{F}" in roots or (isinstance(a.targets[0], ast.Subscript) and isinstance(a.value, ast.Name) and a.value.id == copyname):
                    ok, how = True, f"`{norm(a)}`"
        ck.check(ok, "G-EXH", f"Context.from_context|field|{F}", fc.loc(), f"{F} carried over by {how}",
                 f"the parameterised copy made by Context.from_context does not receive `{F}` from the original: activating the context with keyword parameters silently loses its {F}")

def run(ck, ix, tier):
    ck.rule("G-TYPESTATE", "a container is used with a single queue discipline")
    # ------------------------------------------------------------ find_shortest_path
    fi = ix.func("pint.util", "find_shortest_path")
    ck.analysed(fi)
    defs = defs_of(fi)
    cfg = cfg_of(fi)
    q = [nm for nm, ds in defs.defs.items() if any(v is not None and isinstance(v, ast.Call) and call_name(v) == "deque" for v, k, s in ds)]
    lists = [nm for nm, ds in defs.defs.items() if any(v is not None and isinstance(v, ast.List) and nm != "path" for v, k, s in ds)]
    if not q:
        raise AnalysisError("find_shortest_path: no deque frontier found (unrecognised search idiom)")
    q = q[0]
    ops = [call_name(c) for c in walk_local(fi.node) if isinstance(c, ast.Call) and isinstance(c.func, ast.Attribute) and dotted(c.func.value) == q]
    fifo = set(ops) <= {"append", "popleft", "extend"} and "popleft" in ops
    fifo2 = set(ops) <= {"appendleft", "pop", "extendleft"} and "pop" in ops
    ck.check(fifo or fifo2, "G-TYPESTATE", "find_shortest_path|frontier-is-fifo", fi.loc(),
             f"frontier `{q}` used with {sorted(set(ops))}: first-in first-out, i.e. breadth-first",
             f"frontier `{q}` is used with {sorted(set(ops))}: not a FIFO queue, so the first path found need not be a shortest one")
    # first discovery returns
    tests = [n for n in cfg.nodes if n.kind == "test" and isinstance(n.ast, ast.Compare) and norm(n.ast.comparators[0]) == "end" and isinstance(n.ast.ops[0], ast.Eq)]
    inner = [n for n in tests if norm(n.ast.left) != "start"]
    ck.check(bool(inner), "G-TYPESTATE", "find_shortest_path|target-test-on-discovery", fi.loc(), "neighbours are compared with the target when discovered",
             "neighbours are no longer compared with the target on discovery")
    for n in inner:
        succ = [v for (v, lab) in cfg.succ[n.id] if lab == "t"]
        ok = all(isinstance(cfg.nodes[s].ast, ast.Return) for s in succ) and bool(succ)
        ck.check(ok, "G-TYPESTATE", "find_shortest_path|returns-at-first-discovery", fi.loc(n.ast), "returns as soon as the target is discovered",
                 "the search continues after the target was discovered (a later, longer path can be returned)")
        for s in succ:
            r = cfg.nodes[s].ast
            from .. import shape as _shp
            v = _shp.unalias(r.value, fi.node)      # `extended = path + [node]` hoisted into a temporary
            ok2 = isinstance(v, ast.BinOp) and isinstance(v.op, ast.Add) and norm(v.left) == "path" and norm(n.ast.left) in norm(v.right)
            ck.check(ok2, "G-PROV", "find_shortest_path|returned-path-extends-current-path", fi.loc(r), "returns path + [target]", f"`{norm(r)}` is not the current path extended by the discovered node")
    triv = [n for n in tests if norm(n.ast.left) == "start"]
    ck.check(bool(triv), "G-TYPESTATE", "find_shortest_path|trivial-path", fi.loc(), "start == end returns the trivial path", "start == end is no longer answered with the trivial path")
    # expansion appends path + [node]; visited set prevents revisits
    apps = [c for c in walk_local(fi.node) if isinstance(c, ast.Call) and call_name(c) in ("append", "appendleft") and dotted(c.func.value) == q]
    for c in apps:
        a = c.args[0]
        if isinstance(a, ast.Tuple) and len(a.elts) == 2:
            node, pth = a.elts
            if norm(node) == "start":
                continue
            from .. import shape as _shp
            pth = _shp.unalias(pth, fi.node)
            ok = isinstance(pth, ast.BinOp) and norm(pth.left) == "path" and norm(node) in norm(pth.right)
            ck.check(ok, "G-PROV", "find_shortest_path|frontier-entry-carries-extended-path", fi.loc(c), "frontier entries carry path + [node]", f"`{norm(c)}` does not carry the path extended by the node")
    ck.check("visited" in norm(fi.node) and " - visited" in norm(fi.node), "G-TYPESTATE", "find_shortest_path|visited-nodes-skipped", fi.loc(),
             "visited nodes are not expanded again", "visited nodes are expanded again (termination / shortest path not guaranteed)")
    last = [r for r in walk_local(fi.node) if isinstance(r, ast.Return)]
    ck.check(any(norm(r.value) == "None" for r in last), "G-PROV", "find_shortest_path|unreachable-gives-none", fi.loc(), "unreachable target gives None", "an unreachable target no longer yields None")

    # ------------------------------------------------------------ ContextRegistry._convert
    fi = ix.func(CR, "GenericContextRegistry._convert")
    ck.analysed(fi)
    cfg, defs = cfg_of(fi), defs_of(fi)
    sp = [c for c in walk_local(fi.node) if isinstance(c, ast.Call) and call_name(c) == "find_shortest_path"]
    ck.floor("G-PROV", len(sp), 1, "find_shortest_path call in ContextRegistry._convert")
    for c in sp:
        a = [defs.inline(x) for x in c.args]
        ok = len(a) == 3 and norm(a[0]) == "self._active_ctx.graph" and norm(a[1]) == "self._get_dimensionality(src)" and norm(a[2]) == "self._get_dimensionality(dst)"
        ck.check(ok, "G-PROV", "ctx_convert|path-from-src-dim-to-dst-dim", fi.loc(c), "path searched in the active graph from dim(src) to dim(dst)",
                 f"`{norm(c)}` (after inlining: {[norm(x) for x in a]}) is not a search from dim(src) to dim(dst) in the active graph")
    loops = [f for f in walk_local(fi.node) if isinstance(f, ast.For) and "zip" in norm(f.iter)]
    ck.floor("G-PROV", len(loops), 1, "loop over consecutive path nodes")
    for f in loops:
        ok = norm(f.iter).replace(" ", "") in ("zip(path[:-1],path[1:])", "zip(path,path[1:])", "itertools.pairwise(path)", "pairwise(path)")
        ck.check(ok, "G-PROV", "ctx_convert|consecutive-pairs-in-path-order", fi.loc(f), "rules applied over consecutive pairs of the path, in order",
                 f"`{norm(f.iter)}` does not enumerate consecutive (a, b) pairs of the path in order")
        a, b = [norm(e) for e in f.target.elts]
        tr = [c for c in ast.walk(f) if isinstance(c, ast.Call) and call_name(c) == "transform"]
        ck.floor("G-PROV", len(tr), 1, "transform call in the path loop")
        for c in tr:
            args = [norm(x) for x in c.args]
            tgt = getattr(c, "_parent", None)
            same_var = isinstance(tgt, ast.Assign) and len(args) == 4 and norm(tgt.targets[0]) == args[3]
            ck.check(args[:3] == [a, b, "self"] and same_var and "_active_ctx" in norm(c.func), "G-PROV", "ctx_convert|transform-chained", fi.loc(c),
                     "each step transforms the running value from a to b through the active chain",
                     f"`{norm(tgt) if tgt is not None else norm(c)}` does not chain the running value through transform({a}, {b}, self, value)")
    from .. import shape as _shp
    active = _shp.guard_edges(cfg, lambda a_: norm(a_) == "self._active_ctx", want=True)
    spn = nodes_with(cfg, lambda x: isinstance(x, ast.Call) and call_name(x) == "find_shortest_path")
    ck.check(bool(active) and _shp.reachable_without(cfg, live(cfg, spn), active) is None, "G-DOM", "ctx_convert|rules-only-with-active-contexts", fi.loc(), "rules are only consulted while contexts are active", "the rule graph is searched although no context is active (the active-context test is gone)")
    # delegation (shared with C01): every normal exit through super()._convert
    sup = nodes_with(cfg, lambda x: is_super_call(x, "_convert"))
    p = cfg.all_paths_pass(cfg.entry, [cfg.exit], sup)
    ck.check(bool(sup) and p is None, "G-DOM", "ctx_convert|every-normal-exit-through-super-convert", fi.loc(),
             "every normal exit delegates to super()._convert", "a normal exit bypasses super()._convert", witness(cfg, p))
    for c in [x for x in walk_local(fi.node) if is_super_call(x, "_convert")]:
        ck.check([norm(a) for a in c.args][:3] == ["value", "src", "dst"], "G-PROV", "ctx_convert|delegates-transformed-value-and-units", fi.loc(c),
                 "delegates (value, src, dst)", f"`{norm(c)}` does not pass the (transformed) value, its units and the destination")
    unpack = [a for a in walk_local(fi.node) if isinstance(a, ast.Assign) and isinstance(a.targets[0], ast.Tuple) and [norm(e) for e in a.targets[0].elts] == ["value", "src"]]
    for a in unpack:
        e_ = a.value.elts if isinstance(a.value, ast.Tuple) and len(a.value.elts) == 2 else [None, None]
        oku = all(isinstance(x, ast.Attribute) for x in e_) and e_[0].attr == "_magnitude" and e_[1].attr == "_units" and norm(e_[0].value) == norm(e_[1].value)
        ck.check(oku, "G-PROV", "ctx_convert|unpacks-magnitude-and-units", fi.loc(a), "value, src = magnitude, units of the transformed quantity",
                 f"`{norm(a)}` does not unpack (magnitude, units) in that order")

    # ------------------------------------------------------------ chain lookup and bookkeeping
    memo.rule_context_chain_graph(ck, ix)
    memo.rule_context_overlay(ck, ix)
    memo.rule_overlay_not_reused(ck, ix)  # conversions under a context read the units/cache installed by the switch
    fi = ix.func(CO, "ContextChain.transform")
    ck.analysed(fi)
    r = [x for x in walk_local(fi.node) if isinstance(x, ast.Return)]
    from .. import shape as _sh11
    ok = len(r) == 1 and _sh11.rnorm(r[0].value, fi.node) in ("self[src, dst].transform(src, dst, registry, value)", "self[(src, dst)].transform(src, dst, registry, value)")
    ck.check(ok, "G-PROV", "ContextChain.transform|first-map-with-rule-wins", fi.loc(), "rule looked up through the ChainMap (newest context first) and applied with (src, dst, registry, value)",
             f"`{norm(r[0]) if r else '?'}` is not the ChainMap lookup of (src, dst) applied to the value")
    fi = ix.func(CO, "Context.transform")
    ck.analysed(fi)
    # the rule function is whatever is called with the value: a call whose callee resolves to a read of self.funcs
    calls = [(c, _sh11.resolve(c, fi.node)) for c in walk_local(fi.node) if isinstance(c, ast.Call)]
    calls = [(c, rc) for c, rc in calls if isinstance(rc.func, ast.Subscript) and norm(rc.func.value) == "self.funcs"]
    ck.floor("G-PROV", len(calls), 1, "rule function call in Context.transform")
    for c, rc in calls:
        ok = [norm(a) for a in rc.args] == ["registry", "value"] and any(k.arg is None and norm(k.value) == "self.defaults" for k in rc.keywords)
        ck.check(ok, "G-PROV", "Context.transform|rule-called-with-context-parameters", fi.loc(c), "func(registry, value, **self.defaults)", f"`{norm(c)}` does not pass the context's parameters")
        ck.check(norm(rc.func.slice) in ("self.__keytransform__(src, dst)",), "G-PROV", "Context.transform|rule-selected-by-src-dst", fi.loc(c),
                 "rule selected by (src, dst)", "the rule is not selected by the (src, dst) key")
    fi = ix.func(CO, "Context.__keytransform__")
    r = [x for x in walk_local(fi.node) if isinstance(x, ast.Return)]
    ck.check(len(r) == 1 and norm(r[0].value) == "(to_units_container(src), to_units_container(dst))", "G-PROV", "Context.__keytransform__|src-dst-order", fi.loc(),
             "key is (src, dst)", f"`{norm(r[0]) if r else '?'}` is not the (src, dst) key")
    fi = ix.func(CO, "ContextChain.defaults")
    ck.analysed(fi)
    ck.check("self.values()" in norm(fi.node) and "return ctx.defaults" in norm(fi.node), "G-PROV", "ContextChain.defaults|newest-context-defaults", fi.loc(),
             "enclosing defaults are those of the most recently enabled context", "ContextChain.defaults no longer returns the first (newest) context's defaults")

    # ------------------------------------------------------------ parameter precedence
    fi = ix.func(CR, "GenericContextRegistry.enable_contexts")
    ck.analysed(fi)
    dcalls = [a for a in walk_local(fi.node) if isinstance(a, ast.Assign) and norm(a.targets[0]) == "kwargs"]
    ck.floor("G-PROV", len(dcalls), 1, "merge of enclosing defaults into kwargs")
    for a in dcalls:
        v = a.value
        from .. import shape as _shd
        if isinstance(v, ast.Call) and v.args:
            v = ast.Call(func=v.func, args=[_shd.unalias(v.args[0], fi.node)] + list(v.args[1:]), keywords=v.keywords)
        ok = (isinstance(v, ast.Call) and call_name(v) == "dict" and len(v.args) == 1 and norm(v.args[0]) == "self._active_ctx.defaults"
              and any(k.arg is None and norm(k.value) == "kwargs" for k in v.keywords)) or \
             (isinstance(v, ast.Dict) and [norm(x) for x in v.values] == ["self._active_ctx.defaults", "kwargs"] and all(k is None for k in v.keys)) or \
             (isinstance(v, ast.BinOp) and isinstance(v.op, ast.BitOr) and norm(v.left) == "self._active_ctx.defaults" and norm(v.right) == "kwargs")
        ck.check(ok, "G-PROV", "enable_contexts|call-kwargs-override-enclosing-defaults", fi.loc(a), "call keyword arguments override the enclosing chain's defaults",
                 f"`{norm(a)}` does not let the call's keyword arguments override the enclosing defaults")
    # endpoint normalisation on first activation (the `checked` flag)
    from .. import shape as _she
    fnx = _she.inline_helpers(ix, fi)      # an extracted private helper (method or module function) is looked through
    norm_tests = [t for t in ast.walk(fnx) if isinstance(t, ast.If) and any(isinstance(st, ast.Expr) and isinstance(st.value, ast.Call) and call_name(st.value) == "remove_transformation" for st in t.body)]
    ck.floor("G-PROV", len(norm_tests), 1, "endpoint normalisation test in enable_contexts")
    for t in norm_tests:
        tt = t.test
        parts = tt.values if isinstance(tt, ast.BoolOp) else [tt]
        cmp_ok = all(isinstance(x, ast.Compare) and isinstance(x.ops[0], ast.NotEq) for x in parts)
        ok = isinstance(tt, ast.BoolOp) and isinstance(tt.op, ast.Or) and len(parts) == 2 and cmp_ok
        ck.check(ok, "G-PROV", "enable_contexts|rule-renormalised-if-either-endpoint-differs", fi.loc(t),
                 "a rule is re-keyed when either endpoint is not in base dimensions",
                 f"`{norm(tt)}`: a rule whose source *or* target is a derived dimension must be re-keyed to base dimensions (otherwise the path search never finds it)")
        rm = [c for c in ast.walk(t) if isinstance(c, ast.Call) and call_name(c) == "remove_transformation"]
        ad = [c for c in ast.walk(t) if isinstance(c, ast.Call) and call_name(c) == "add_transformation"]
        ok2 = len(rm) == 1 and len(ad) == 1 and len(rm[0].args) == 2 and len(ad[0].args) == 3
        if ok2:
            olds = [norm(a) for a in rm[0].args]
            news = [_she.unalias(a, fnx) for a in ad[0].args[:2]]
            ok2 = all(isinstance(nw, ast.Call) and "get_dimensionality" in norm(nw.func).lower().replace("_get_", "get_") and [norm(x) for x in nw.args] == [o] for nw, o in zip(news, olds)) and isinstance(ad[0].args[2], ast.Name)
        ck.check(ok2, "G-PROV", "enable_contexts|rule-rekeyed-to-base-dimensions", fi.loc(t), "old key removed, same function added under the base-dimension key",
                 "the rule is not moved from (src, dst) to (base src, base dst) with the same function")
    fc = [c for c in walk_local(fi.node) if isinstance(c, ast.Call) and call_name(c) == "from_context"]
    ck.floor("G-PROV", len(fc), 1, "from_context call")
    for c in fc:
        ck.check(any(k.arg is None and norm(k.value) == "kwargs" for k in c.keywords), "G-PROV", "enable_contexts|contexts-parameterised-with-merged-kwargs", fi.loc(c),
                 "contexts parameterised with the merged kwargs", f"`{norm(c)}` does not pass the merged kwargs")
    fi = ix.func(CO, "Context.from_context")
    nd11 = [c_ for c_ in walk_local(fi.node) if isinstance(c_, ast.Call) and call_name(c_) == "dict" and "defaults" in norm(c_)]
    ck.floor("G-PROV", len(nd11), 1, "merge of declared defaults and passed values in Context.from_context")
    for a in nd11:
        c = a
        ok = len(c.args) == 1 and norm(c.args[0]) == "context.defaults" and any(k.arg is None and norm(k.value) == "defaults" for k in c.keywords)
        ck.check(ok, "G-PROV", "Context.from_context|passed-defaults-override-declared", fi.loc(a), "passed values override declared defaults", f"`{norm(c)}` reverses the override order")
    # name / alias resolution of contexts
    fi = ix.func(CR, "GenericContextRegistry.add_context")
    ck.analysed(fi)
    ws = [(p, k, n) for (p, k, n) in writes_in(fi.node) if p == "self._contexts"]
    keys = sorted(norm(t.slice) for (p, k, n) in ws for t in n.targets if isinstance(t, ast.Subscript))
    ck.check(keys == ["alias", "context.name"], "G-PROV", "add_context|registered-under-name-and-aliases", fi.loc(), "registered under name and every alias", f"contexts are registered under {keys}")

    # ------------------------------------------------------------ rule equation evaluation
    fi = ix.func(CD, "Relation.transformation")
    ck.analysed(fi)
    lam = [l for l in ast.walk(fi.node) if isinstance(l, ast.Lambda)]
    ck.floor("G-PROV", len(lam), 1, "transformation lambda")
    for l in lam:
        c = l.body
        ok = isinstance(c, ast.Call) and call_name(c) == "parse_expression" and norm(c.args[0]) == "self.equation" and any(k.arg == "value" and norm(k.value) == "value" for k in c.keywords) \
            and any(k.arg is None and norm(k.value) == "kwargs" for k in c.keywords)
        ck.check(ok, "G-PROV", "Relation.transformation|equation-evaluated-with-value-and-parameters", fi.loc(l), "equation evaluated with value=value and the parameters",
                 f"`{norm(l)}` does not evaluate the equation with value and parameters")
    fi = ix.func(CO, "Context.from_definition")
    ck.analysed(fi)
    adds = [c for c in walk_local(fi.node) if isinstance(c, ast.Call) and call_name(c) == "add_transformation"]
    args = [[norm(a) for a in c.args] for c in adds]
    ck.check(["src", "dst", "relation.transformation"] in args, "G-PROV", "Context.from_definition|forward-rule", fi.loc(), "forward rule src->dst registered", f"rules registered: {args}")
    bi = [c for c in adds if [norm(a) for a in c.args] == ["dst", "src", "relation.transformation"]]
    ok = bool(bi) and isinstance(getattr(getattr(bi[0], "_parent", None), "_parent", None), ast.If) and norm(bi[0]._parent._parent.test) == "relation.bidirectional"
    ck.check(ok, "G-PROV", "Context.from_definition|reverse-rule-only-if-bidirectional", fi.loc(), "reverse rule only for <->", "the reverse rule is not registered exactly for bidirectional relations")

    # ------------------------------------------------------------ _redefine gates
    fi = ix.func(CR, "GenericContextRegistry._redefine")
    ck.analysed(fi)
    cfg = cfg_of(fi)
    sink = nodes_calling(cfg, "define")
    ck.floor("G-DOM", len(sink), 1, "define call in _redefine")
    gates = {
        "unknown-unit": lambda n: n.kind == "test" and norm(n.ast) == "not candidates",
        "prefixed-name": lambda n: n.kind == "test" and norm(n.ast) == "not candidates_no_prefix",
        "base-unit": lambda n: n.kind == "test" and norm(n.ast) == "basedef.is_base",
        "dimension-change": lambda n: n.kind == "test" and norm(n.ast).replace(" ", "") in ("dims_old!=dims_new", "notdims_old==dims_new"),
    }
    for name, pred in gates.items():
        g = [n.id for n in cfg.nodes if pred(n)]
        if not g:
            ck.fail("G-DOM", f"_redefine|{name}-rejected", fi.loc(), f"the `{name}` rejection test is gone")
            continue
        for s in live(cfg, sink):
            p = undominated(cfg, [s], g)
            ck.check(p is None, "G-DOM", f"_redefine|{name}-rejected", fi.loc(cfg.nodes[g[0]].ast), f"{name} tested before define", f"define reachable without the {name} test", witness(cfg, p))
        for t in g:
            p = edge_leads_only_to_raise(cfg, t, "t", also_forbid=sink)
            ck.check(p is None, "G-DOM", f"_redefine|{name}-raises", fi.loc(cfg.nodes[t].ast), f"{name} raises", f"{name} does not raise before define", witness(cfg, p))
    defs = defs_of(fi)
    for nm, arg in (("dims_old", "basedef.reference"), ("dims_new", "definition.reference")):
        v = defs.single(nm)
        ck.check(v is not None and norm(v) == f"self._get_dimensionality({arg})", "G-PROV", f"_redefine|{nm}", fi.loc(), f"{nm} = dimensionality of {arg}", f"{nm} is `{norm(v)}`")
    # rebuilt definition keeps name/symbol/aliases of the registry's unit and takes reference+converter of the redefinition
    ud = [c for c in walk_local(fi.node) if isinstance(c, ast.Call) and call_name(c) == "UnitDefinition"]
    for c in ud:
        kw = {k.arg: norm(k.value) for k in c.keywords}
        ok = kw == {"name": "basedef.name", "defined_symbol": "basedef.symbol", "aliases": "basedef.aliases", "reference": "definition.reference", "converter": "definition.converter"}
        ck.check(ok, "G-PROV", "_redefine|rebuilt-definition-fields", fi.loc(c), "identity from the registry, value from the redefinition", f"rebuilt definition fields are {kw}")
    context_copy_rule(ck, ix)
    return EXPLANATION
