"""C18 — copy, pickle and tuple serialisation preserve objects; registries stay isolated."""
from __future__ import annotations

import ast

from ..flow import call_name, dotted, norm, writes_in
from ..index import AnalysisError, ClassInfo, walk_local
from ..lib import cfg_of, defs_of, edge_leads_only_to_raise, live, nodes_with, undominated, witness
from .. import shape

PQ = "pint.facets.plain.quantity"
PU = "pint.facets.plain.unit"
U = "pint.util"
PR = "pint.facets.plain.registry"

EXPLANATION = (
    "Static analysis (no execution): reduce/__init__ field round trip for every exception class of pint.errors and its "
    "subclasses (argument i of the reduce tuple is the attribute __init__ assigns from parameter i, for all "
    "parameters; a subclass adding instance state to a parent that defines __reduce__ must carry it); "
    "Quantity/Unit/Measurement.__reduce__ name the plain class, the matching _unpickle_* hook and the same fields the "
    "constructor takes; _unpickle parses every unit name of every UnitsContainer argument with the application registry "
    "before constructing; __getstate__/__setstate__ of UnitsContainer/ParserHelper carry the same fields in the same "
    "order, never the memoised hash, and reset it; __copy__/__deepcopy__ rebuild from a copy of the magnitude and the "
    "same units; from_tuple inverts to_tuple field by field; registry identity: in every binary dunder of "
    "PlainQuantity/PlainUnit reading other's magnitude/units is dominated by self._check(other) or an identity test of "
    "the registries (== excepted), and _check raises ValueError for objects of another registry; registry deep copy "
    "enters the copy in the memo, re-creates every dynamic class and rebinds copied instances (groups, systems) to the "
    "copy's classes; LazyRegistry initialises exactly like UnitRegistry. Does not decide equality after a round trip for "
    "concrete objects.")
EXPLANATION += ' Also decided (rules added after the second round of seeded changes): _unpickle parses each unit name unconditionally (no guard derived from a cache or membership test).'
EXPLANATION += ' Also decided (round 5, defects D35/D36): a PlainUnit method wraps the other operand as a quantity/unit of its own registry only after self._check(other) has executed; every special method that the interpreter looks up on the type and that the registry defines (__getitem__, __call__, __iter__, __contains__, __dir__) has a forwarder on LazyRegistry that builds the registry first, and on ApplicationRegistry one that reaches the wrapped registry.'


def _init_assignments(init):
    """param name -> attribute assigned from it (self.X = param / tuple(param) / ...)."""
    out = {}
    params = [a.arg for a in init.node.args.args[1:]]
    for a in walk_local(init.node):
        if isinstance(a, ast.Assign) and len(a.targets) == 1 and isinstance(a.targets[0], ast.Attribute) and dotted(a.targets[0].value) == "self":
            names = {n.id for n in ast.walk(a.value) if isinstance(n, ast.Name)}
            for p in params:
                if p in names:
                    out.setdefault(p, a.targets[0].attr)
    return params, out


def _is(pattern: str, e: ast.AST, fn: ast.AST = None) -> bool:
    """`e` matches the pattern (shape.match syntax) as written or, inside `fn`, after resolving local temporaries"""
    if shape.match(pattern, e) is not None:
        return True
    return fn is not None and shape.match(pattern, shape.resolve(e, fn)) is not None


def _returned(fi) -> list:
    """the values a function returns, local temporaries resolved"""
    return [shape.resolve(r.value, fi.node) for r in shape.returns_of(fi.node)]


def _param(fi, i: int, default: str) -> str:
    a = fi.node.args.args
    return a[i].arg if len(a) > i else default


def _fields_from_state(fi) -> list:
    """For `__setstate__(self, state)`: the attributes of self that receive state[0], state[1], ... in that order, whether
    they are unpacked directly (`self.a, self.b = state`) or through locals (`a, b = state; self.a = a`)."""
    fn, state = fi.node, _param(fi, 1, "state")
    got = {}
    for a in walk_local(fn):
        if not isinstance(a, ast.Assign):
            continue
        for t in a.targets:
            if isinstance(t, (ast.Tuple, ast.List)) and shape.rnorm(a.value, fn) == state:
                for i, e in enumerate(t.elts):
                    if isinstance(e, ast.Attribute) and dotted(e.value) == "self":
                        got[i] = norm(e)
            elif isinstance(t, ast.Attribute) and dotted(t.value) == "self":
                m = shape.match(f"{state}[_I]", shape.resolve(a.value, fn))
                if m is not None and m["_I"].isdigit():
                    got[int(m["_I"])] = norm(t)
    return [got.get(i, "?") for i in range(max(got) + 1)] if got else []


def _ancestors(node, stop):
    cur = getattr(node, "_parent", None)
    while cur is not None and cur is not stop:
        yield cur
        cur = getattr(cur, "_parent", None)


def _is_container_test(a_, var: str) -> bool:
    return isinstance(a_, ast.Call) and call_name(a_) == "isinstance" and len(a_.args) == 2 and norm(a_.args[0]) == var and norm(a_.args[1]) == "UnitsContainer"


def _only_containers_of(gen, source: str):
    """`gen` is the first generator of a comprehension: `for C in <source> if isinstance(C, UnitsContainer)` with no
    other filter -> the name C; else None."""
    if not (isinstance(gen.target, ast.Name) and norm(gen.iter) == source):
        return None
    conds = [ct for i in gen.ifs for ct in shape.conjuncts(i, "t")]
    if len(conds) == 1 and conds[0][1] is True and _is_container_test(conds[0][0], gen.target.id):
        return gen.target.id
    return None


def _walks_every_name_of_every_container(call, fn, source: str) -> bool:
    """The argument N of `parse_units(N)` ranges over every name of every element of the parameter `source` that is a
    UnitsContainer - whatever the iteration idiom:
       for C in source: if isinstance(C, UnitsContainer): for N in C: ...
       for N in chain.from_iterable(C for C in source if isinstance(C, UnitsContainer)): ...      (also chain(*...))
       for N in (n for C in source if isinstance(C, UnitsContainer) for n in C): ...
    (temporaries holding the iterables are looked through)."""
    if not (len(call.args) == 1 and isinstance(call.args[0], ast.Name)):
        return False
    fors, cur = [], getattr(call, "_parent", None)
    while cur is not None and cur is not fn:
        if isinstance(cur, ast.For):
            fors.append(cur)
        cur = getattr(cur, "_parent", None)
    mine = [l for l in fors if norm(l.target) == call.args[0].id]
    if not mine:
        return False
    inner = mine[0]
    outer = [l for l in fors if l is not inner and isinstance(l.target, ast.Name) and norm(l.iter) == source]
    # nested loops: the inner loop ranges over the variable of a loop over `source`, tested to be a container
    for o in outer:
        if norm(inner.iter) == o.target.id and shape.holds_at(call, fn, lambda a_: _is_container_test(a_, o.target.id), True):
            return True
    it = shape.resolve(inner.iter, fn)
    comp = (ast.GeneratorExp, ast.ListComp)
    # flattening of the filtered arguments
    for pt in ("chain.from_iterable(_G)", "itertools.chain.from_iterable(_G)", "chain(*_G)", "itertools.chain(*_G)"):
        if shape.match(pt, it) is not None:
            g = it.args[0].value if isinstance(it.args[0], ast.Starred) else it.args[0]
            if isinstance(g, comp) and len(g.generators) == 1:
                c = _only_containers_of(g.generators[0], source)
                return c is not None and norm(g.elt) == c
    # one comprehension with two generators
    if isinstance(it, comp) and len(it.generators) == 2:
        c = _only_containers_of(it.generators[0], source)
        g2 = it.generators[1]
        return c is not None and norm(g2.iter) == c and not g2.ifs and isinstance(g2.target, ast.Name) and norm(it.elt) == g2.target.id
    return False


def run(ck, ix, tier):
    ck.rule("G-PROV", "serialised fields are exactly the constructor's fields, in order")
    # ------------------------------------------------------------ (a) exceptions
    err = ix.module("pint.errors")
    base = err.classes.get("PintError")
    n = 0
    classes = [c for c in ix.all_classes() if c.module.name.startswith("pint") and (c.module is err or any(b.module is err for b in ix.mro(c)[1:]))]
    for ci in classes:
        mro = ix.mro(ci)
        red = next((c.methods["__reduce__"] for c in mro if "__reduce__" in c.methods), None)
        init = next((c.methods["__init__"] for c in mro if "__init__" in c.methods), None)
        if red is None or init is None:
            continue
        if not any(b.name in ("Exception", "PintError") or "Error" in b.name or "Warning" in b.name for b in mro) and not ci.name.endswith(("Error", "Warning", "Behavior")):
            continue
        n += 1
        ck.analysed(red, init)
        key = f"reduce-roundtrip|{ci.qualname}"
        params, assigned = _init_assignments(init)
        rets = [v for v in (shape.unalias(r.value, red.node) for r in shape.returns_of(red.node)) if isinstance(v, ast.Tuple)]
        if not rets:
            raise AnalysisError(f"{ci.name}.__reduce__: unrecognised shape")
        tup = rets[0]
        ck.check(norm(tup.elts[0]) == "self.__class__", "G-PROV", key + "|class", red.loc(), "reduces to its own class", f"{ci.name}.__reduce__ reconstructs `{norm(tup.elts[0])}` instead of self.__class__")
        targs = shape.unalias(tup.elts[1], red.node)
        args = targs.elts if isinstance(targs, ast.Tuple) else []
        want = [f"self.{assigned.get(p, '?')}" for p in params]
        got = [norm(a) for a in args]
        ck.check(got == want, "G-PROV", key + "|fields", red.loc(), f"reduce args {got}",
                 f"{ci.name}: __init__({', '.join(params)}) stores {want} but __reduce__ rebuilds with {got} (a field is dropped, swapped or stale after unpickling)")
        # instance state beyond the constructor's parameters (own __init__ differs from the reduce owner, setters)
        own_attrs = set()
        for c in mro:
            for m in c.methods.values():
                if m.name in ("__init__",) or m.name.startswith("set_"):
                    for (p, kind, node) in writes_in(m.node):
                        if p.startswith("self.") and kind.endswith("attr-store"):
                            own_attrs.add(p[5:])
                    for cc in walk_local(m.node):
                        if isinstance(cc, ast.Call) and call_name(cc) == "__setattr__" and cc.args and isinstance(cc.args[0], ast.Constant):
                            own_attrs.add(cc.args[0].value)
        carried = {a.attr for a in ast.walk(tup) if isinstance(a, ast.Attribute) and dotted(a.value) == "self"}
        state_ok = len(tup.elts) >= 3 or own_attrs <= carried
        ck.check(state_ok, "G-PROV", key + "|instance-state-carried", red.loc(), "all instance state is carried",
                 f"{ci.name} keeps {sorted(own_attrs - carried)} on the instance, but the __reduce__ it uses ({red.qualname.split('::')[1]}) does not carry them: pickling changes the exception's message/fields")
    ck.floor("G-PROV", n, 6, "exception classes with __reduce__")

    # ------------------------------------------------------------ (b) objects
    hooks = {"PlainQuantity": ("_unpickle_quantity", ["PlainQuantity", "self.magnitude", "self._units"], PQ), "PlainUnit": ("_unpickle_unit", ["PlainUnit", "self._units"], PU),
             "Measurement": ("_unpickle_measurement", ["Measurement", "self.magnitude", "self._units"], "pint.facets.measurement.objects")}
    for cn, (hook, fields, mod) in hooks.items():
        f = ix.func(mod, f"{cn}.__reduce__")
        ck.analysed(f)
        rets = _returned(f)
        v = rets[0] if rets else None
        ok = isinstance(v, ast.Tuple) and len(v.elts) == 2 and norm(v.elts[0]) == hook and isinstance(v.elts[1], ast.Tuple) and [norm(e) for e in v.elts[1].elts] in (fields, [fields[0]] + [x.replace("self.magnitude", "self._magnitude") for x in fields[1:]])
        ck.check(ok, "G-PROV", f"{cn}.__reduce__|hook-and-fields", f.loc(), f"({hook}, {fields})", f"{cn}.__reduce__ returns `{norm(v)}`; expected ({hook}, ({', '.join(fields)}))")
    init = ix.module("pint")
    for hook, attr in (("_unpickle_quantity", "Quantity"), ("_unpickle_unit", "Unit"), ("_unpickle_measurement", "Measurement")):
        f = init.functions.get(hook)
        ok = f is not None and bool(_returned(f)) and all(shape.match(f"_unpickle(application_registry.{attr}, *{f.node.args.vararg.arg if f.node.args.vararg else 'args'})", v) is not None for v in _returned(f))
        ck.check(ok, "G-PROV", f"{hook}|application-registry-class", f.loc() if f else init.relpath, f"rebuilds with application_registry.{attr}", f"{hook} no longer rebuilds with application_registry.{attr}")
    f = init.functions.get("_unpickle")
    if f is None:
        raise AnalysisError("pint._unpickle not found")
    ck.analysed(f)
    from .. import shape as _shu
    from ..cfg import CFG
    fnode = _shu.inline_helpers(ix, f)        # an extracted private helper (e.g. _register_unit_names(arg)) is looked through
    cfg = CFG(fnode)
    ctor = nodes_with(cfg, lambda x: isinstance(x, ast.Call) and isinstance(x.func, ast.Name) and x.func.id == "cls")
    # by role: the loop(s) that walk the arguments = the outermost loop around each parse_units call whose iterable derives
    # from the parameter `args`
    src_ = f.node.args.vararg.arg if f.node.args.vararg else "args"
    loop = []
    for pc_ in [x for x in ast.walk(fnode) if isinstance(x, ast.Call) and call_name(x) == "parse_units"]:
        outer_, cur_ = None, getattr(pc_, "_parent", None)
        while cur_ is not None and cur_ is not fnode:
            if isinstance(cur_, ast.For):
                outer_ = cur_
            cur_ = getattr(cur_, "_parent", None)
        if outer_ is not None and any(isinstance(y, ast.Name) and y.id == src_ for y in ast.walk(shape.resolve(outer_.iter, fnode))):
            loop += [n.id for n in cfg.nodes if n.kind == "for" and n.ast is outer_.iter]
    parse = nodes_with(cfg, lambda x: isinstance(x, ast.Call) and call_name(x) == "parse_units" and "application_registry" in norm(x.func))
    ck.check(bool(parse), "G-DOM", "_unpickle|unit-names-parsed", f.loc(), "unit names are parsed with the application registry", "_unpickle no longer parses the unit names with the application registry (prefixed units would be missing)")
    for c in live(cfg, ctor):
        p = undominated(cfg, [c], loop)
        inside = any(isinstance(anc, (ast.For, ast.While)) for anc in _ancestors(cfg.nodes[c].ast, fnode))       # built while still walking
        ck.check(bool(loop) and p is None and not inside, "G-DOM", "_unpickle|parse-before-construct", f.loc(cfg.nodes[c].ast), "every UnitsContainer argument is walked before the object is constructed", "the object is constructed before its unit names were registered", witness(cfg, p))
        built = [x for x in ast.walk(cfg.nodes[c].ast) if isinstance(x, ast.Call) and isinstance(x.func, ast.Name) and x.func.id == "cls"]
        ck.check(bool(built) and all(shape.match("cls(*args)", x) is not None for x in built) and any(isinstance(v, ast.Call) and norm(v.func) == "cls" for v in (shape.resolve(r.value, fnode) for r in shape.returns_of(fnode))), "G-PROV", "_unpickle|all-fields-forwarded", f.loc(cfg.nodes[c].ast), "cls(*args)", f"`{cfg.nodes[c].text()}` does not forward all pickled fields")
    pcalls = [x for x in ast.walk(fnode) if isinstance(x, ast.Call) and call_name(x) == "parse_units"]
    okw = bool(pcalls) and all(_walks_every_name_of_every_container(x, fnode, src_) for x in pcalls)
    ck.check(okw, "G-DOM", "_unpickle|every-name-of-every-container", f.loc(), "every name of every UnitsContainer argument", "_unpickle no longer walks every name of every UnitsContainer argument")
    # every name is parsed unconditionally: whether the registry still knows a prefixed unit is the registry's business
    # (its tables change with contexts); a guard derived from a cache or from a membership test can go stale
    for c in [x for x in ast.walk(fnode) if isinstance(x, ast.Call) and call_name(x) == "parse_units"]:
        guards, cur = [], getattr(c, "_parent", None)
        inner_for = None
        while cur is not None and cur is not fnode:
            if isinstance(cur, ast.For) and inner_for is None:
                inner_for = cur
            if isinstance(cur, (ast.If, ast.Try, ast.While)) and inner_for is None:
                guards.append(cur)
            cur = getattr(cur, "_parent", None)
        ck.check(inner_for is not None and not guards, "G-DOM", "_unpickle|names-parsed-unconditionally", f.loc(c), "each name of the container is parsed, unconditionally",
                 f"`{norm(c)}` is guarded by `{norm(guards[0].test) if guards and isinstance(guards[0], ast.If) else 'a conditional'}`: a name that is skipped (e.g. because a cache still lists it) may no longer be registered and the unpickled object cannot be used")
    # container state
    uc, ph = ix.cls(U, "UnitsContainer"), ix.cls(U, "ParserHelper")
    g, s = uc.methods["__getstate__"], uc.methods["__setstate__"]
    gv = _returned(g)
    got = [norm(e) for e in gv[0].elts] if len(gv) == 1 and isinstance(gv[0], ast.Tuple) else []
    setf = _fields_from_state(s)
    ck.check(got == setf and got == ["self._d", "self._one", "self._non_int_type"], "G-PROV", "UnitsContainer|getstate-setstate-same-fields", g.loc(), f"state = {got}",
             f"__getstate__ returns {got} but __setstate__ unpacks {setf}; the state must be exactly (_d, _one, _non_int_type) in the same order (the memoised hash must not travel: str hashes differ between processes)")
    ck.check(any(isinstance(a, ast.Assign) and norm(a.targets[0]) == "self._hash" and norm(a.value) == "None" for a in walk_local(s.node)), "G-PROV", "UnitsContainer.__setstate__|hash-reset", s.loc(), "hash reset on unpickling", "__setstate__ no longer resets the memoised hash")
    # ParserHelper: the container's state with the scale appended; unpacked symmetrically (all but the last to the
    # container, the last to self.scale)
    g2, s2 = ph.methods["__getstate__"], ph.methods["__setstate__"]
    st2 = _param(s2, 1, "state")
    appended = [v for v in _returned(g2) if shape.match("super().__getstate__() + (self.scale,)", v) is not None or shape.match("(*super().__getstate__(), self.scale)", v) is not None]
    stripped = [c for c in walk_local(s2.node) if isinstance(c, ast.Call) and shape.match("super().__setstate__(_X)", c) is not None and len(c.args) == 1 and _is(f"{st2}[:-1]", c.args[0], s2.node)]
    scale = [a for a in walk_local(s2.node) if isinstance(a, ast.Assign) and norm(a.targets[0]) == "self.scale" and _is(f"{st2}[-1]", a.value, s2.node)]
    ck.check(bool(appended) and len(appended) == len(_returned(g2)) and bool(stripped) and bool(scale), "G-PROV", "ParserHelper|state-appends-scale", g2.loc(), "container state + scale, unpacked symmetrically", "ParserHelper state no longer appends/strips the scale symmetrically")
    # copy hooks
    f = ix.func(PQ, "PlainQuantity.__copy__")
    from .. import shape as _shk
    def built(fq):
        r_ = [_shk.resolve(r.value, fq.node) for r in _shk.returns_of(fq.node)]
        return [norm(x) for x in r_ if isinstance(x, ast.Call) and norm(x.func) in ("self.__class__", "type(self)")]
    ck.check(built(f) == ["self.__class__(copy.copy(self._magnitude), self._units)"], "G-TAG", "PlainQuantity.__copy__|same-units-copied-magnitude", f.loc(), "copy of the magnitude, same units", "Quantity.__copy__ no longer rebuilds from a copy of the magnitude and the same units")
    f = ix.func(PQ, "PlainQuantity.__deepcopy__")
    ck.check(built(f) == ["self.__class__(copy.deepcopy(self._magnitude, memo), copy.deepcopy(self._units, memo))"], "G-TAG", "PlainQuantity.__deepcopy__|deep-copies-both-fields", f.loc(), "deep copies of magnitude and units", "Quantity.__deepcopy__ no longer deep-copies magnitude and units")
    f = ix.func(PU, "PlainUnit.__copy__")
    ck.check(built(f) == ["self.__class__(self._units)"], "G-TAG", "PlainUnit.__copy__|same-units", f.loc(), "same units", "Unit.__copy__ no longer rebuilds from the same units")
    f = ix.func(PU, "PlainUnit.__deepcopy__")
    ck.check(built(f) == ["self.__class__(copy.deepcopy(self._units, memo))"], "G-TAG", "PlainUnit.__deepcopy__|deep-copies-units", f.loc(), "deep copy of the units", "Unit.__deepcopy__ no longer deep-copies the units")
    # tuple form
    tt, ft = ix.func(PQ, "PlainQuantity.to_tuple"), ix.func(PQ, "PlainQuantity.from_tuple")
    tup_ = _param(ft, 1, "tup")
    fwd = _returned(tt)
    okt = bool(fwd) and all(any(shape.match(f"(self.{m_}, tuple(self._units.items()))", v) is not None for m_ in ("m", "magnitude", "_magnitude")) for v in fwd)
    back = _returned(ft)
    okf = bool(back) and all(shape.match(f"cls({tup_}[0], cls._REGISTRY.UnitsContainer({tup_}[1]))", v) is not None for v in back)
    ck.check(okt and okf, "G-PROV", "to_tuple/from_tuple|field-by-field-inverse", tt.loc(), "(magnitude, unit items) <-> cls(tup[0], UnitsContainer(tup[1]))", "from_tuple no longer inverts to_tuple field by field")

    # ------------------------------------------------------------ (c) registry identity
    chk = ix.func(U, "SharedRegistryObject._check")
    ck.analysed(chk)
    cfg = cfg_of(chk)
    from .. import shape as _sh18
    # three outcomes: same registry (identity) -> True; a registry object of another registry -> ValueError; anything else -> False
    same = lambda a_: isinstance(a_, ast.Compare) and isinstance(a_.ops[0], ast.Is) and sorted([_sh18.rnorm(a_.left, chk.node), _sh18.rnorm(a_.comparators[0], chk.node)]) == sorted(["self._REGISTRY", "getattr(other, '_REGISTRY', None)"])
    shared = lambda a_: norm(a_) == "isinstance(other, SharedRegistryObject)"
    rets = _sh18.returns_of(chk.node)
    raises = [r for r in walk_local(chk.node) if isinstance(r, ast.Raise)]
    okT = any(isinstance(r.value, ast.Constant) and r.value.value is True and _sh18.holds_at(r, chk.node, same, True) for r in rets) and all(not (isinstance(r.value, ast.Constant) and r.value.value is True) or _sh18.holds_at(r, chk.node, same, True) for r in rets)
    ck.check(okT, "G-DOM", "_check|identity-of-registries", chk.loc(), "True exactly when both objects carry the same registry (by identity)", "_check no longer answers True only when the registries are identical (`is`)")
    okR = len(raises) >= 1 and all("ValueError" in norm(r) and _sh18.holds_at(r, chk.node, same, False) and _sh18.holds_at(r, chk.node, shared, True) for r in raises)
    okF = all(not (isinstance(r.value, ast.Constant) and r.value.value is False) or (_sh18.holds_at(r, chk.node, same, False) and _sh18.holds_at(r, chk.node, shared, False)) for r in rets)
    ck.check(okR and okF, "G-DOM", "_check|foreign-registry-object-raises", chk.loc(), "an object of another registry raises ValueError, a non-registry object gives False", "_check no longer raises for (exactly) the registry objects of another registry")
    n_b = 0
    BIN = ["_add_sub", "_iadd_sub", "_mul_div", "_imul_div", "__floordiv__", "__ifloordiv__", "__rfloordiv__", "__mod__", "__imod__", "__rmod__", "__divmod__", "__rdivmod__", "compare"]
    for name in BIN:
        f = ix.func(PQ, f"PlainQuantity.{name}")
        ck.analysed(f)
        cfg = cfg_of(f)
        # `self._check(other)` raises for an object of another registry whatever is done with its result, so executing it
        # (in a test or in `is_quantity = self._check(other)`) before touching other's fields is what isolates registries
        gates = [n.id for n in cfg.nodes if n.kind == "test" and "_REGISTRY" in norm(n.ast) and " is " in norm(n.ast)]
        gates += nodes_with(cfg, lambda x: isinstance(x, ast.Call) and call_name(x) == "_check" and norm(x.func.value) == "self" and x.args and norm(x.args[0]) == "other")
        reads = nodes_with(cfg, lambda x: isinstance(x, ast.Attribute) and x.attr in ("_magnitude", "magnitude", "_units") and dotted(x.value) == "other")
        reads += nodes_with(cfg, lambda x: isinstance(x, ast.Call) and call_name(x) in ("to", "to_root_units", "ito_root_units") and isinstance(x.func, ast.Attribute) and dotted(x.func.value) == "other")
        for r in live(cfg, sorted(set(reads))):
            if r in gates:
                continue
            n_b += 1
            p = undominated(cfg, [r], gates)
            ck.check(bool(gates) and p is None, "G-DOM", f"PlainQuantity.{name}|registry-check-before-using-other|{cfg.nodes[r].text()[:40]}", f.loc(cfg.nodes[r].ast),
                     "other's magnitude/units are only used after the registry check",
                     f"`{cfg.nodes[r].text()[:70]}` uses the other operand before self._check(other) / the registry identity test: objects of different registries combine silently", witness(cfg, p))
    ck.floor("G-DOM", n_b, 15, "uses of the other operand in binary dunders")
    for name in ("__mul__", "__truediv__", "__eq__", "from_"):
        f = ix.func(PU, f"PlainUnit.{name}")
        cfg = cfg_of(f)
        # executing self._check(other) is what matters (it raises for a unit of another registry), in a test or in
        # `same_registry = self._check(other)`
        gates = nodes_with(cfg, lambda x: isinstance(x, ast.Call) and call_name(x) == "_check" and isinstance(x.func, ast.Attribute) and norm(x.func.value) == "self" and x.args and norm(x.args[0]) == "other")
        reads = nodes_with(cfg, lambda x: isinstance(x, ast.Attribute) and x.attr == "_units" and dotted(x.value) in ("other",))
        for r in live(cfg, reads):
            if r in gates:
                continue
            p = undominated(cfg, [r], gates)
            ck.check(bool(gates) and p is None, "G-DOM", f"PlainUnit.{name}|registry-check-before-using-other", f.loc(cfg.nodes[r].ast), "other._units only after _check", "other._units is used before self._check(other)", witness(cfg, p))

    # a unit handed wholesale to a registry-bound constructor (`self._REGISTRY.Quantity(1, other)`) is relabelled as an
    # object of this registry: only after self._check(other) has executed (it raises for a unit of another registry)
    n_w = 0
    for mi in ix.cls(PU, "PlainUnit").methods.values():
        if not isinstance(mi.node, ast.FunctionDef) or "other" not in [a_.arg for a_ in mi.node.args.args]:
            continue
        cfgm = cfg_of(mi)
        def units_argument(x):
            """the argument that is taken as *units* by the registry-bound constructor `x` (None if absent)"""
            if not isinstance(x, ast.Call):
                return None
            f_ = shape.rnorm(x.func, mi.node)          # through an alias such as `quantity_cls = self._REGISTRY.Quantity`
            kw = {k.arg: k.value for k in x.keywords}
            if f_ == "self._REGISTRY.Quantity":
                return x.args[1] if len(x.args) > 1 else kw.get("units")
            if f_ in ("self._REGISTRY.Unit", "self.__class__"):
                return x.args[0] if x.args else kw.get("units")
            return None
        wraps_ = nodes_with(cfgm, lambda x: isinstance(units_argument(x), ast.Name) and units_argument(x).id == "other")
        gates = nodes_with(cfgm, lambda x: isinstance(x, ast.Call) and call_name(x) == "_check" and isinstance(x.func, ast.Attribute) and norm(x.func.value) == "self" and x.args and norm(x.args[0]) == "other")
        for r in live(cfgm, sorted(set(wraps_))):
            n_w += 1
            p = undominated(cfgm, [r], gates)
            ck.check(bool(gates) and p is None, "G-DOM", f"PlainUnit.{mi.name}|registry-check-before-wrapping-other", mi.loc(cfgm.nodes[r].ast),
                     "the other unit is wrapped as a quantity of this registry only after the registry check",
                     f"`{cfgm.nodes[r].text()[:70]}` relabels the other operand as an object of this registry without self._check(other): units of different registries are ordered/combined silently", witness(cfgm, p))
    ck.floor("G-DOM", n_w, 1, "PlainUnit methods wrapping the other operand in a registry-bound object")

    # ------------------------------------------------------------ (d) registry deep copy
    f = ix.func(PR, "GenericPlainRegistry.__deepcopy__")
    ck.analysed(f)
    cfg = cfg_of(f)
    src = norm(f.node)
    # by role: NEW is whatever is bound to a bare instance `object.__new__(type(self))`; it is entered in the memo (2nd
    # parameter) under id(self) before any state is copied, receives a deep copy of self.__dict__, has its dynamic classes
    # re-created on every path, and is what is returned
    fn, memo_ = f.node, _param(f, 1, "memo")
    is_new = lambda e: _is("object.__new__(type(self))", e, fn) or _is("object.__new__(self.__class__)", e, fn)
    memo = nodes_with(cfg, lambda x: isinstance(x, ast.Assign) and norm(x.targets[0]) == f"{memo_}[id(self)]" and is_new(x.value))
    dcopy = nodes_with(cfg, lambda x: isinstance(x, ast.Call) and call_name(x) == "deepcopy")
    ck.check(bool(memo), "G-EXH", "registry-deepcopy|copy-entered-in-memo", f.loc(), "the copy is entered in the deepcopy memo", "the registry copy is not entered in the memo: objects referring back to the registry (formatters) end up with a second shadow registry")
    for d in live(cfg, dcopy):
        p = undominated(cfg, [d], memo)
        ck.check(bool(memo) and p is None, "G-EXH", "registry-deepcopy|memo-before-copying-state", f.loc(cfg.nodes[d].ast), "memo entry precedes the copy of the state", "the state is deep-copied before the copy is entered in the memo", witness(cfg, p))
    init_dyn = nodes_with(cfg, lambda x: isinstance(x, ast.Call) and call_name(x) == "_init_dynamic_classes" and isinstance(x.func, ast.Attribute) and is_new(x.func.value))
    p = cfg.all_paths_pass(cfg.entry, [cfg.exit], init_dyn)
    ck.check(bool(init_dyn) and p is None, "G-EXH", "registry-deepcopy|dynamic-classes-recreated", f.loc(), "dynamic classes are re-created for the copy", "the copy keeps the source registry's Quantity/Unit classes (its objects would belong to the source)", witness(cfg, p))
    state = [a_ for a_ in walk_local(fn) if isinstance(a_, ast.Assign) and isinstance(a_.targets[0], ast.Attribute) and a_.targets[0].attr == "__dict__" and is_new(a_.targets[0].value) and _is(f"copy.deepcopy(self.__dict__, {memo_})", a_.value, fn)]
    rets = shape.returns_of(fn)
    ck.check(bool(state) and bool(rets) and all(is_new(r.value) for r in rets), "G-EXH", "registry-deepcopy|state-deep-copied", f.loc(), "whole state deep-copied", "the registry state is no longer deep-copied")
    # every facet that creates instance-bearing dynamic classes rebinds the copied instances
    reg = ix.cls("pint.registry", "UnitRegistry")
    for c in ix.mro(reg):
        idc = c.methods.get("_init_dynamic_classes")
        if idc is None:
            continue
        created = [a for a in walk_local(idc.node) if isinstance(a, ast.Assign) and isinstance(a.value, ast.Call) and call_name(a.value) == "create_class_with_registry"]
        for a in created:
            attr = a.targets[0].attr if isinstance(a.targets[0], ast.Attribute) else "?"
            if attr in ("Unit", "Quantity", "Measurement"):
                continue
            # instances of this class are stored in registry state (e.g. self._groups / self._systems)
            store = {"Group": "_groups", "System": "_systems"}.get(attr)
            dc = c.methods.get("__deepcopy__")
            ok = dc is not None and store is not None
            if ok:
                # by role: COPY = super().__deepcopy__(memo) is returned; every element of COPY.<store>.values() gets
                # its class re-bound to COPY.<attr>
                dn = dc.node
                copy_ = f"super().__deepcopy__({_param(dc, 1, 'memo')})"
                rebinds = []
                for x in walk_local(dn):
                    if isinstance(x, ast.Assign) and isinstance(x.targets[0], ast.Attribute) and x.targets[0].attr == "__class__" and isinstance(x.targets[0].value, ast.Name) and _is(f"{copy_}.{attr}", x.value, dn):
                        var = x.targets[0].value.id
                        loop = getattr(x, "_parent", None)
                        while loop is not None and not (isinstance(loop, ast.For) and isinstance(loop.target, ast.Name) and loop.target.id == var):
                            loop = getattr(loop, "_parent", None)
                        if loop is not None and _is(f"{copy_}.{store}.values()", loop.iter, dn) and not shape.facts_at(x, loop):
                            rebinds.append(x)
                drets = shape.returns_of(dn)
                ok = bool(rebinds) and bool(drets) and all(_is(copy_, r.value, dn) for r in drets)
            ck.check(ok, "G-EXH", f"registry-deepcopy|instances-rebound|{attr}", (dc or idc).loc(), f"copied {attr} instances are rebound to the copy's {attr} class",
                     f"{c.name} creates the registry-bound class `{attr}` but its deep copy does not rebind the copied instances in `{store}` to new.{attr}: they keep _REGISTRY of the source registry")
    # ------------------------------------------------------------ lazy registry
    # by role: the method that turns the placeholder into a registry sets self.__class__ = UnitRegistry, then calls
    # self.__init__ with the stored (args, kwargs) = self.__dict__['params'], then self._after_init()
    lz = ix.cls("pint.registry", "LazyRegistry")
    oklz = False
    for mi in lz.methods.values():
        mn = mi.node
        become = [a_ for a_ in walk_local(mn) if isinstance(a_, ast.Assign) and norm(a_.targets[0]) == "self.__class__" and norm(a_.value) == "UnitRegistry"]
        if not become:
            continue
        mcfg = cfg_of(mi)
        inits = [c_ for c_ in walk_local(mn) if isinstance(c_, ast.Call) and _is("self.__init__(*self.__dict__['params'][0], **self.__dict__['params'][1])", c_, mn)]
        after = [c_ for c_ in walk_local(mn) if isinstance(c_, ast.Call) and shape.match("self._after_init()", c_) is not None]
        n_become, n_init = [i for a_ in become for i in mcfg.nodes_for_ast(a_)], [i for c_ in inits for i in nodes_with(mcfg, lambda x, c_=c_: x is c_)]
        n_after = [i for c_ in after for i in nodes_with(mcfg, lambda x, c_=c_: x is c_)]
        oklz = bool(n_init) and bool(n_after) and undominated(mcfg, n_init, n_become) is None and undominated(mcfg, n_after, n_init) is None and mcfg.all_paths_pass(mcfg.entry, [mcfg.exit], n_after) is None
    ck.check(oklz, "G-TWIN", "LazyRegistry|initialises-like-UnitRegistry", lz.module.relpath, "becomes a UnitRegistry: __init__ then _after_init", "LazyRegistry no longer initialises itself as a UnitRegistry followed by _after_init()")
    # special methods that the interpreter looks up on the TYPE (they bypass __getattr__, which is what builds the lazy
    # registry): every one of them that the real registry defines needs an explicit forwarder on LazyRegistry, and the
    # forwarder must build the registry first; ApplicationRegistry must forward the same set to the wrapped registry
    TYPE_LOOKUP = {"__getitem__", "__setitem__", "__delitem__", "__call__", "__iter__", "__contains__", "__len__", "__dir__", "__enter__", "__exit__", "__next__", "__reversed__", "__bool__"}
    ur = ix.cls("pint.registry", "UnitRegistry")
    defined = {nm for c_ in ix.mro(ur) for nm in c_.methods if nm in TYPE_LOOKUP}
    ck.floor("G-EXH", len(defined), 3, "type-looked-up special methods defined by the registry classes")
    builder = next((mi for mi in lz.methods.values() if any(isinstance(a_, ast.Assign) and norm(a_.targets[0]) == "self.__class__" for a_ in walk_local(mi.node))), None)
    for nm in sorted(defined):
        mi = lz.methods.get(nm)
        okf = mi is not None and builder is not None
        if okf:
            mc = cfg_of(mi)
            built = nodes_with(mc, lambda x: isinstance(x, ast.Call) and isinstance(x.func, ast.Attribute) and norm(x.func.value) == "self" and x.func.attr.lstrip("_").endswith(builder.name.lstrip("_")))
            okf = bool(built) and mc.all_paths_pass(mc.entry, [mc.exit], built) is None
        ck.check(okf, "G-EXH", f"LazyRegistry|type-looked-up-special-method-forwarded|{nm}", lz.module.relpath if mi is None else mi.loc(), f"LazyRegistry.{nm} builds the registry and forwards",
                 f"the registry defines `{nm}`, which Python looks up on the type (bypassing LazyRegistry.__getattr__), but LazyRegistry has no `{nm}` that builds the registry first: using it as the first operation on the default registry fails or answers for the empty placeholder")
    ar = ix.cls("pint.registry", "ApplicationRegistry")
    for nm in sorted(defined):
        mi = ar.methods.get(nm)
        okf = mi is not None and any(isinstance(x, ast.Attribute) and norm(x) == "self._registry" for r in shape.returns_of(mi.node) for x in ast.walk(r.value))
        ck.check(okf, "G-EXH", f"ApplicationRegistry|type-looked-up-special-method-forwarded|{nm}", ar.module.relpath if mi is None else mi.loc(), f"ApplicationRegistry.{nm} forwards to the wrapped registry",
                 f"the registry defines `{nm}` (looked up on the type) but ApplicationRegistry does not forward it to the wrapped registry")
    return EXPLANATION
