"""C05 — equality, ordering and hashing agree with physical value."""
from __future__ import annotations

import ast

from .. import shape
from ..flow import call_name, dotted, norm
from ..index import AnalysisError, walk_local
from ..lib import cfg_of, defs_of, edge_leads_only_to_raise, find, has, live, nodes_with, return_nodes, undominated, witness
from ..tags import Tagger

PQ = "pint.facets.plain.quantity"
PU = "pint.facets.plain.unit"

EXPLANATION = (
    "Static analysis (no execution): G-TAG abstract interpretation of PlainQuantity.__eq__ and compare over the unit-tag "
    "domain (magnitudes are compared only when expressed in the same units; ordering through root units requires the "
    "dimensionality test on the path; a zero test standing in for a comparison requires both quantities to be known "
    "multiplicative, so 0 degC is never equated with 0 kelvin; a bare number is only compared with a magnitude converted "
    "to dimensionless or as zero on multiplicative/base units); hash granularity (the tuple hashed by __hash__ contains "
    "only functions of the base-unit magnitude and the dimensionality, and the magnitude is always taken after "
    "to_base_units); registry identity is checked in compare before any magnitude is read; across dimensions compare "
    "raises and __eq__ returns False; __ne__ is the negation of __eq__; the rich-comparison lambdas pass the matching "
    "operator; Unit comparisons go through 1*unit quantities; compat.eq/zero_or_nan reduce with all(). Does not "
    "decide transitivity/trichotomy as laws, float ties or array semantics.")
EXPLANATION += ' Also decided (rules added after the second round of seeded changes): the predicate that selects the bare-magnitude hash is `dimensionless` of the base form (what __eq__ uses against numbers); the per-object dimensionality memo read by __eq__/compare is validated against the units; no comparison calls an in-place conversion primitive.'
EXPLANATION += ' Also decided (round 5, error discipline): __eq__ may answer False for a DimensionalityError of the conversion only where the dimensionalities are known to differ; for equal dimensionalities without a direct conversion (offset vs. delta units) it must compare root-unit magnitudes as the ordering does, otherwise every raise of the registry _convert chain is classified (dimension mismatch / invalid offset combination / same dimension = violation).'
EXPLANATION += " Also decided (round 10): the field that records which units container the per-object dimensionality memo was computed for (the other side of the memo's validity test, found from that test) is written only by the dimensionality property itself; anywhere else only a reset to None is accepted - re-pointing it at the new units in ito() makes the stale dimensionality pass the validity test after an in-place conversion under a context."


# ---------------------------------------------------------------- role-based helpers (also used by C06)
def atom_is(fn, *patterns):
    """Predicate on a positive atom of a condition (as produced by shape.atoms / conjuncts / facts_at): the atom - as
    written, or with the local temporaries of `fn` replaced by their definitions - matches one of the patterns
    (shape.match syntax: `_X` wildcards)."""
    def pred(a):
        forms = [a]
        try:
            forms.append(shape.resolve(a, fn))
        except RecursionError:
            pass
        return any(shape.match(p, f) is not None for p in patterns for f in forms)
    return pred


def _expanded(facts, fn, depth=3):
    """(atom, truth) pairs with hoisted conditions (`c = a and b` ... `if c:`) expanded into what they imply."""
    out = []

    def add(a, t, d):
        out.append((a, t))
        if isinstance(a, ast.Name) and d > 0:
            v = shape.unalias(a, fn)
            if v is not a:
                for a2, t2 in shape.conjuncts(v, "t" if t else "f"):
                    add(a2, t2, d - 1)
    for a, t in facts:
        add(a, t, depth)
    return out


def facts(node, fn):
    """What is known wherever `node` executes (shape.facts_at), hoisted conditions expanded."""
    return _expanded(shape.facts_at(node, fn), fn)


def known(node, fn, pred, truth=True):
    return any(t == truth and pred(a) for a, t in facts(node, fn))


def edges_where(cfg, fn, pred, want=True):
    """CFG edges (test id, label) on which an atom satisfying `pred` is known to be `want`, whatever the spelling of
    the test (negation, `!=`/`is not`, conjunctions, hoisted conditions)."""
    out = []
    for n in cfg.nodes:
        if n.kind != "test" or n.ast is None:
            continue
        for lab in ("t", "f"):
            if any(t == want and pred(a) for a, t in _expanded(shape.conjuncts(n.ast, lab), fn)):
                out.append((n.id, lab))
    return out


def refused(ck, fi, cfg, pred, want, rule, key, ok_msg, bad_msg, gone_msg=None, fn=None):
    """Wherever an atom satisfying `pred` is known to be `want` only a raise is reachable; the atom must be tested at
    least once (otherwise the refusal is gone: violation).  Returns the edges."""
    es = edges_where(cfg, fn or fi.node, pred, want)
    if not es:
        ck.fail(rule, key, fi.loc(), gone_msg or bad_msg)
    for (t, lab) in es:
        p = edge_leads_only_to_raise(cfg, t, lab)
        ck.check(p is None, rule, key, fi.loc(cfg.nodes[t].ast), ok_msg, bad_msg, witness(cfg, p))
    return es


def calls_matching(node, *patterns):
    """Call nodes below `node` (a def or a lambda) that match one of the patterns."""
    return [c for c in ast.walk(node) if isinstance(c, ast.Call) and any(shape.match(p, c) is not None for p in patterns)]


def stmt_of(node):
    while node is not None and not isinstance(node, ast.stmt):
        node = getattr(node, "_parent", None)
    return node


# ---------------------------------------------------------------- quantifiers over a literal pair, outcomes of a function
def _copy_tree(node):
    """Fresh copy of an AST (positions kept, the index's back-pointers not followed)."""
    if isinstance(node, list):
        return [_copy_tree(x) for x in node]
    if not isinstance(node, ast.AST):
        return node
    new = node.__class__()
    for f in node._fields:
        if hasattr(node, f):
            setattr(new, f, _copy_tree(getattr(node, f)))
    for a in ("lineno", "col_offset", "end_lineno", "end_col_offset"):
        if hasattr(node, a):
            setattr(new, a, getattr(node, a))
    return new


def _set_parents(tree):
    for p in ast.walk(tree):
        for c in ast.iter_child_nodes(p):
            c._parent = p
    return tree


class _Unrolled:
    """FuncInfo look-alike whose `node` is a rewritten copy of the function (positions kept)."""

    def __init__(self, fi, node):
        self._fi, self.node = fi, node

    def __getattr__(self, name):
        return getattr(self._fi, name)

    def loc(self, node=None):
        return self._fi.loc(node if node is not None and hasattr(node, "lineno") else None)


def unrolled(fi):
    """`fi` with quantifiers over a literal tuple written out: `all(P(q) for q in (a, b))` is `P(a) and P(b)`,
    `any(...)` is `... or ...` (both are lazy, so evaluation order and short-circuit are the same); the tuple may be
    held in a local (`pair = (self, other)`) provided nothing can rebind its elements in between.  Rules that read
    conditions (facts, unit tags) then see the same conjunction whichever way it is spelled."""
    fn = _set_parents(_copy_tree(fi.node))
    nested = [d for d in ast.walk(fn) if isinstance(d, (ast.FunctionDef, ast.AsyncFunctionDef, ast.Lambda)) and d is not fn]
    rebound_by_nested = {n for d in nested for x in ast.walk(d) if isinstance(x, ast.Nonlocal) for n in x.names}
    nested_names = {d.name for d in nested if hasattr(d, "name")}
    stored = {x.id for x in walk_local(fn) if isinstance(x, ast.Name) and isinstance(x.ctx, (ast.Store, ast.Del))}

    def elements(it, use):
        """the element expressions of the iterable if it is a literal tuple/list of plain operands, else None"""
        src = it
        if isinstance(it, ast.Name):
            src = shape.dominating_def(it, fn)
        if not isinstance(src, (ast.Tuple, ast.List)) or not 1 <= len(src.elts) <= 4:
            return None
        if not all(isinstance(e, ast.Name) and e.id not in stored for e in src.elts):
            return None
        if src is not it and any(e.id in rebound_by_nested for e in src.elts):
            # a nested function may rebind an element: only safe when nothing runs between the definition and the use
            d, u = stmt_of(src), stmt_of(use)
            blk = getattr(d, "_parent", None)
            lst = next((l for f_ in ("body", "orelse", "finalbody") for l in [getattr(blk, f_, None)] if isinstance(l, list) and any(x is d for x in l)), None)
            if lst is None or not any(x is u for x in lst):
                return None
            i, j = [k for k, x in enumerate(lst) if x is d][0], [k for k, x in enumerate(lst) if x is u][0]
            if any(isinstance(c, ast.Call) and isinstance(c.func, ast.Name) and c.func.id in nested_names for st in lst[i + 1:j] for c in ast.walk(st)):
                return None
        return src.elts

    def subst(e, var, val):
        class S(ast.NodeTransformer):
            def visit_Name(self, n):
                return ast.copy_location(ast.Name(id=val.id, ctx=ast.Load()), n) if n.id == var and isinstance(n.ctx, ast.Load) else n
        return S().visit(_copy_tree(e))

    class U(ast.NodeTransformer):
        def visit_Call(self, c):
            self.generic_visit(c)
            if isinstance(c.func, ast.Name) and c.func.id in ("all", "any") and len(c.args) == 1 and not c.keywords and isinstance(c.args[0], (ast.GeneratorExp, ast.ListComp)) \
                    and len(c.args[0].generators) == 1:
                g = c.args[0].generators[0]
                if isinstance(g.target, ast.Name) and not g.ifs and not g.is_async and isinstance(c.args[0], ast.GeneratorExp):
                    elts = elements(g.iter, c)
                    if elts:
                        vals = [subst(c.args[0].elt, g.target.id, e) for e in elts]
                        new = vals[0] if len(vals) == 1 else ast.BoolOp(op=ast.And() if c.func.id == "all" else ast.Or(), values=vals)
                        return ast.copy_location(new, c)
            return c
    changed = U().visit(fn)
    # `if (a and b) and (c and d)` is `if a and b and c and d`
    class F(ast.NodeTransformer):
        def visit_BoolOp(self, b):
            self.generic_visit(b)
            vals = []
            for v in b.values:
                vals.extend(v.values if isinstance(v, ast.BoolOp) and type(v.op) is type(b.op) else [v])
            b.values = vals
            return b
    fn = F().visit(changed)
    ast.fix_missing_locations(fn)
    return _Unrolled(fi, _set_parents(fn))


def outcomes(fn):
    """The expressions a function may return, conditional expressions split into their alternatives (the facts that
    select an alternative are found by `facts(leaf, fn)`): `return a if c else b` has the same outcomes as
    `if c: return a` / `return b`."""
    out = []

    def leaves(e):
        e = shape.unalias(e, fn)
        if isinstance(e, ast.IfExp):
            leaves(e.body)
            leaves(e.orelse)
        else:
            out.append(e)
    for r in shape.returns_of(fn):
        if not shape.dead(r, fn):
            leaves(r.value)
    return out


MAG = ("magnitude", "_magnitude", "m")


def run(ck, ix, tier):
    ck.rule("G-TAG", "abstract interpretation over the unit-tag domain")
    obl = 0
    for name in ("__eq__", "compare"):
        fi = unrolled(ix.func(PQ, f"PlainQuantity.{name}"))
        ck.analysed(fi)
        t = Tagger(ck, fi, "G-TAG")
        t.run()
        obl += t.n_obl
    ck.floor("G-TAG", obl, 5, "tag obligations in __eq__/compare")

    # ------------------------------------------------------------ __eq__ structure
    eq_zero_rule(ck, ix)
    eq_conversion_failure_rule(ck, ix)
    fi = ix.func(PQ, "PlainQuantity.__eq__")
    # DimensionalityError -> False
    trys = [t for t in walk_local(fi.node) if isinstance(t, ast.Try) and any(h.type is not None and "DimensionalityError" in norm(h.type) for h in t.handlers)]
    ck.check(bool(trys), "G-ERR", "PlainQuantity.__eq__|incompatible-units-compare-unequal", fi.loc(), "conversion failure handled", "__eq__ no longer handles DimensionalityError from the conversion")
    for t in trys:
        for h in t.handlers:
            rets = [r for r in ast.walk(h) if isinstance(r, ast.Return)]
            ck.check(bool(rets) and all(r.value is not None and "False" in shape.rnorm(r.value, fi.node) for r in rets), "G-ERR", "PlainQuantity.__eq__|different-dimension-returns-False", fi.loc(h),
                     "different dimensions compare unequal", "a DimensionalityError in __eq__ does not result in False")
    # __ne__ is the negation of __eq__ (element-wise for arrays)
    fi_ne = ix.func(PQ, "PlainQuantity.__ne__")
    ck.analysed(fi_ne)
    rets_ = {shape.rnorm(e, fi_ne.node) for e in outcomes(fi_ne.node)}
    ck.check(sorted(rets_) == ["not self.__eq__(other)", "np.logical_not(self.__eq__(other))"], "G-TWIN", "PlainQuantity.__ne__|negation-of-eq", fi_ne.loc(), "__ne__ negates __eq__", "__ne__ is no longer the negation of __eq__")

    # ------------------------------------------------------------ compare: order of checks
    fi = ix.func(PQ, "PlainQuantity.compare")
    fn, cfg = fi.node, cfg_of(fi)
    same_reg = atom_is(fn, "self._REGISTRY is other._REGISTRY", "other._REGISTRY is self._REGISTRY")
    ck.check(bool(edges_where(cfg, fn, same_reg, False)), "G-DOM", "PlainQuantity.compare|registry-identity-tested", fi.loc(), "registry identity is tested", "compare no longer tests that both quantities belong to the same registry")
    # every read of the other quantity's magnitude / units happens where the registries are known to be identical
    reads = [x for x in walk_local(fn) if (isinstance(x, ast.Attribute) and x.attr in ("_magnitude", "magnitude", "m", "_units", "units") and dotted(x.value) == "other")
             or (isinstance(x, ast.Call) and call_name(x) in ("to_root_units", "to_base_units") and isinstance(x.func, ast.Attribute) and dotted(x.func.value) == "other")]
    ck.floor("G-DOM", len(reads), 2, "reads of the other quantity's magnitude/units in compare")
    for x in reads:
        if shape.dead(x, fn):
            continue
        st = stmt_of(x)
        text = norm(st.test if isinstance(st, (ast.If, ast.While)) else st).splitlines()[0] if st is not None else norm(x)
        ck.check(known(x, fn, same_reg, True), "G-DOM", f"PlainQuantity.compare|registry-check-before-reading-other|{text[:50]}", fi.loc(x),
                 "other's magnitude/units are only read after the registry identity test",
                 f"`{text}` reads the other quantity before the registry identity test: quantities of different registries compare silently")
    refused(ck, fi, cfg, same_reg, False, "G-DOM", "PlainQuantity.compare|different-registries-raise", "different registries raise ValueError", "different registries do not raise",
            "compare no longer tests that both quantities belong to the same registry")
    same_dim = ("self.dimensionality == other.dimensionality", "other.dimensionality == self.dimensionality")
    refused(ck, fi, cfg, atom_is(fn, *same_dim), False, "G-DOM", "PlainQuantity.compare|different-dimensions-raise", "ordering across dimensions raises DimensionalityError", "ordering across dimensions does not raise",
            "compare no longer tests dimensionality before ordering through root units")
    # ordering through conversions that keep the offset: to_root_units on both (not a bare factor), where the dimensionalities are known to be equal
    fin = [hit for a in MAG for b in MAG for hit in find(ix, fi, f"op(self.to_root_units().{a}, other.to_root_units().{b})")]
    ck.check(bool(fin), "G-TAG", "PlainQuantity.compare|both-operands-converted-to-root-units", fi.loc(), "both operands are converted to root units as quantities (offsets included)",
             "compare no longer orders by the root-unit magnitudes of both operands")
    for node, _b, fn2 in fin:
        ck.check(known(node, fn2, atom_is(fn2, *same_dim), True), "G-DOM", "PlainQuantity.compare|dimensionality-tested", fi.loc(node), "dimensionality tested before ordering",
                 "compare orders through root units without having tested that the dimensionalities are equal")
    for cls_mod, cls_name, label in ((PQ, "PlainQuantity", ""), (PU, "PlainUnit", "Unit.")):
        ci = ix.cls(cls_mod, cls_name)
        for nm, op in (("__lt__", "operator.lt"), ("__le__", "operator.le"), ("__ge__", "operator.ge"), ("__gt__", "operator.gt")):
            m = ci.methods.get(nm)
            okc = m is not None and bool(calls_matching(m.node, f"self.compare(other, op={op})", f"self.compare(other, {op})"))
            ck.check(okc, "G-TABLE", f"{cls_name}.{nm}|uses-{op}", m.loc() if m else cls_mod, f"{nm} -> compare(other, {op})", f"{label}{nm} does not call compare with {op}")
    fu = ix.func(PU, "PlainUnit.compare")
    ck.analysed(fu)
    rets_ = sorted({shape.rnorm(e, fu.node) for e in outcomes(fu.node)})
    rets_ = [r for r in rets_ if r != "NotImplemented"]
    ck.check(rets_ == ["self._REGISTRY.Quantity(1, self).compare(other, op)", "self._REGISTRY.Quantity(1, self).compare(self._REGISTRY.Quantity(1, other), op)"], "G-TWIN",
             "PlainUnit.compare|via-unit-quantities", fu.loc(), "units are ordered as 1*unit quantities", "Unit.compare no longer compares 1*self with 1*other")

    # ------------------------------------------------------------ hash granularity
    hash_rules(ck, ix)
    fh = ix.func(PU, "PlainUnit.__hash__")
    ck.check(has(ix, fh, "self._units.__hash__()") or has(ix, fh, "hash(self._units)"), "G-PROV", "PlainUnit.__hash__|container-hash", fh.loc(), "unit hash = container hash", "PlainUnit.__hash__ is no longer the container hash")

    # ------------------------------------------------------------ __bool__ and helpers
    fb = ix.func(PQ, "PlainQuantity.__bool__")
    refused(ck, fb, cfg_of(fb), atom_is(fb.node, "self._is_multiplicative"), False, "G-DOM", "PlainQuantity.__bool__|offset-units-raise", "truth value of offset quantities raises", "bool() of an offset quantity no longer raises")
    fe = ix.func("pint.compat", "eq")
    ck.analysed(fe)
    cm = ix.module("pint.compat")

    def reductions(fn):
        """names of the array reductions (.all/.any) applied in fn or in the same-module helpers it calls"""
        out, seen, todo = [], set(), [fn]
        while todo:
            g = todo.pop()
            if g.name in seen:
                continue
            seen.add(g.name)
            for c in walk_local(g.node):
                if isinstance(c, ast.Call) and isinstance(c.func, ast.Attribute) and c.func.attr in ("all", "any") and not c.args:
                    out.append(c.func.attr)
                if isinstance(c, ast.Call) and isinstance(c.func, ast.Name) and c.func.id in cm.functions and c.func.id.startswith("_"):
                    todo.append(cm.functions[c.func.id])
        return out
    red = reductions(fe)
    has_eq = any(isinstance(c, ast.Compare) and isinstance(c.ops[0], ast.Eq) and norm(c) in ("lhs == rhs", "rhs == lhs") for c in walk_local(fe.node))
    ck.check(has_eq and "all" in red and "any" not in red, "G-PROV", "compat.eq|elementwise-then-all", fe.loc(), "== then all() when check_all", f"compat.eq must compare with == and reduce with all() under check_all (reductions found: {red})")
    fz = ix.func("pint.compat", "zero_or_nan")
    red = reductions(fz)
    summ = any(isinstance(b2, ast.BinOp) and isinstance(b2.op, (ast.Add, ast.BitOr)) and sorted([shape.rnorm(b2.left, fz.node), shape.rnorm(b2.right, fz.node)]) == ["eq(obj, 0, False)", "isnan(obj, False)"] for b2 in walk_local(fz.node))
    ck.check(summ and "all" in red and "any" not in red, "G-PROV", "compat.zero_or_nan|zero-or-nan-all", fz.loc(), "(== 0) | isnan, reduced with all()", f"compat.zero_or_nan is no longer (obj == 0) + isnan(obj) reduced with all() (reductions found: {red})")
    from .. import memo as _memo
    _memo.rule_quantity_dimensionality_memo(ck, ix)  # __eq__/compare read Quantity.dimensionality
    from .C16 import inplace_primitives_rule
    inplace_primitives_rule(ck, ix)  # only in-place forms may rescale/rebind their target
    return EXPLANATION


def hash_rules(ck, ix):
    """__hash__ hashes functions of (base-unit magnitude, dimensionality, class) only, and the bare magnitude exactly for
    dimensionless quantities.  Everything is decided on expressions with the local temporaries resolved, so the name
    (or the existence) of the variable holding `self.to_base_units()` does not matter."""
    fi = ix.func(PQ, "PlainQuantity.__hash__")
    ck.analysed(fi)
    fn, cfg = fi.node, cfg_of(fi)
    BASE = "self.to_base_units()"
    ck.check(has(ix, fi, BASE), "G-PROV", "PlainQuantity.__hash__|via-base-units", fi.loc(), "hash computed from the base-unit form", "__hash__ no longer converts to base units first")
    allowed = {f"{BASE}.{a}" for a in MAG} | {f"{BASE}.__class__", f"type({BASE})", f"{BASE}.dimensionality", "self.dimensionality", "self.__class__", "type(self)"}
    hashes = [c for c in walk_local(fn) if isinstance(c, ast.Call) and isinstance(c.func, ast.Name) and c.func.id == "hash" and len(c.args) == 1 and not shape.dead(c, fn)]
    ck.floor("G-PROV", len(hashes), 1, "hash() calls in PlainQuantity.__hash__")
    dimless = lambda a: shape.rnorm(a, fn) in (f"{BASE}.dimensionless", "self.dimensionless")
    for h in hashes:
        arg = shape.unalias(h.args[0], fn)          # a hoisted tuple
        bare = not isinstance(arg, ast.Tuple)
        for c in (arg.elts if not bare else [arg]):
            s = shape.rnorm(c, fn)
            ck.check(s in allowed, "G-PROV", f"PlainQuantity.__hash__|hash-granularity|{s}", fi.loc(h),
                     f"`{s}` is a function of (base magnitude, dimensionality, class)",
                     f"__hash__ hashes `{s}`: equal quantities can differ in it (units that still distinguish dimensionless base units, or a magnitude not converted to base units)")
        # the branch that hashes the bare magnitude (so that q == 3 implies hash(q) == hash(3)) must be taken exactly when
        # __eq__ compares with bare numbers, i.e. for every *dimensionless* quantity (radian, count, ... included), and
        # every other quantity must hash what __eq__ compares (dimensionality, not the units)
        ck.check(known(h, fn, dimless, bare), "G-PROV", f"PlainQuantity.__hash__|{'bare' if bare else 'tuple'}-hash-on-the-right-side", fi.loc(h),
                 "bare magnitude hashed for dimensionless quantities, (class, magnitude, dimensionality) otherwise",
                 f"`{norm(h)}` is computed on the wrong side of the dimensionless test")
    # every hash() call must use the converted object, and the dimensionless shortcut must come after the conversion
    conv = nodes_with(cfg, lambda x: isinstance(x, ast.Call) and call_name(x) == "to_base_units")
    hs = nodes_with(cfg, lambda x: isinstance(x, ast.Call) and isinstance(x.func, ast.Name) and x.func.id == "hash")
    for hn in live(cfg, hs):
        p = undominated(cfg, [hn], conv)
        ck.check(p is None, "G-PROV", "PlainQuantity.__hash__|magnitude-converted-before-hashing", fi.loc(cfg.nodes[hn].ast), "hash only after to_base_units",
                 "a hash is computed on a path that skips to_base_units (equal dimensionless quantities in scaled units would hash differently)", witness(cfg, p))
    # nothing but the dimensionless predicate of the base form selects the hash granularity
    for tst in [n for n in cfg.nodes if n.kind == "test"]:
        ats = [a for lab in ("t", "f") for a, _ in _expanded(shape.conjuncts(tst.ast, lab), fn) if not isinstance(a, (ast.Name, ast.BoolOp))]
        ck.check(bool(ats) and all(dimless(a) for a in ats), "G-PROV", "PlainQuantity.__hash__|dimensionless-shortcut-on-base-form", fi.loc(tst.ast), "bare-magnitude hash for every dimensionless quantity",
                 f"`{shape.rnorm(tst.ast, fn)}` selects the hash granularity: the bare-magnitude hash must be taken exactly for dimensionless quantities (the predicate __eq__ uses for bare numbers); 1 radian == 1 but would hash differently")


def eq_zero_rule(ck, ix):
    """The both-zero shortcut of __eq__: wherever a magnitude is known to be zero *instead of* being compared, both
    quantities are known to be multiplicative (D4: 0 degC is not 0 kelvin) and the answer is the dimensionality
    comparison.  Decided on the facts that hold at each statement, so the spelling of the condition (one `if`, nested
    `if`s, guard clauses, a hoisted conjunction) does not matter."""
    fi = unrolled(ix.func(PQ, "PlainQuantity.__eq__"))
    ck.analysed(fi)
    fn = fi.node
    t0 = Tagger(ck, fi, "G-TAG")
    t0.run()
    is_zero = atom_is(fn, *[f"eq(_Q.{a}, 0, True)" for a in MAG])
    n_tests = len([c for a in MAG for c in calls_matching(fn, f"eq(_Q.{a}, 0, True)") if not shape.dead(c, fn)])
    ck.floor("G-TAG", n_tests, 1, "zero tests on a quantity's magnitude in PlainQuantity.__eq__ (the both-zero shortcut)")
    n = n_ret = 0
    for st in walk_local(fn):
        if not isinstance(st, (ast.Return, ast.Raise, ast.Assign, ast.AugAssign, ast.AnnAssign, ast.Expr)) or shape.dead(st, fn):
            continue
        if not known(st, fn, is_zero, True):
            continue
        n += 1
        okm = all(known(st, fn, atom_is(fn, f"{w}._is_multiplicative"), True) for w in ("self", "other"))
        ck.check(okm, "G-TAG", "PlainQuantity.__eq__|both-zero-shortcut-requires-multiplicative", fi.loc(st),
                 "the both-zero shortcut only applies when both quantities are multiplicative",
                 "the both-zero shortcut answers by dimensionality although an operand may carry an offset/log unit (0 degC == 0 kelvin would be True)")
        # the answer given there is the dimensionality comparison: every governed `return` derives from it; a governed
        # assignment is a temporary of such a return (a spliced helper) unless an ungoverned return reads it
        is_dim_eq = lambda v: v is not None and any(isinstance(c, ast.Compare) and (shape.match("self.dimensionality == other.dimensionality", c) is not None or shape.match("other.dimensionality == self.dimensionality", c) is not None)
                                                    for c in ast.walk(shape.resolve(v, fn)))
        if isinstance(st, ast.Return):
            n_ret += 1
            okd = is_dim_eq(st.value)
        elif isinstance(st, (ast.Assign, ast.AnnAssign)) and getattr(st, "value", None) is not None:
            tnames = {x.id for t_ in (st.targets if isinstance(st, ast.Assign) else [st.target]) for x in ast.walk(t_) if isinstance(x, ast.Name)}
            attr_store = any(not isinstance(t_, (ast.Name, ast.Tuple, ast.List)) for t_ in (st.targets if isinstance(st, ast.Assign) else [st.target]))
            def from_here(x):
                d = shape.dominating_def(x, fn)          # None = unknown: assume it may be this statement
                return d is None or d is st.value or (isinstance(d, ast.Subscript) and d.value is st.value)
            escapes = any(not known(r, fn, is_zero, True) and any(isinstance(x, ast.Name) and x.id in tnames and from_here(x) for x in ast.walk(r)) for r in shape.returns_of(fn))
            okd = is_dim_eq(st.value) or (not attr_store and not escapes)
        else:
            okd = False
        ck.check(okd, "G-PROV", "PlainQuantity.__eq__|both-zero-answer-is-dimensionality-equality", fi.loc(st),
                 "two zeros are equal iff the dimensionalities are", f"`{norm(st).splitlines()[0]}` is not the dimensionality comparison")
    ck.check(n == 0 or n_ret > 0, "G-PROV", "PlainQuantity.__eq__|both-zero-answer-is-dimensionality-equality", fi.loc(), "the shortcut returns its answer", "the both-zero shortcut no longer returns the dimensionality comparison")
    ck.floor("G-TAG", n, 1, "statements of PlainQuantity.__eq__ governed by a zero test of the magnitudes")



def eq_conversion_failure_rule(ck, ix):
    """G-ERR: PlainQuantity.__eq__ turns a DimensionalityError of the conversion into `False`.  That is only right if
    the error means "different dimensionality".  Every `raise DimensionalityError(...)` of the registry's `_convert`
    chain (context -> non-multiplicative -> plain) is therefore classified by the facts that hold where it executes:
      * a dimensionality inequality is known            -> fine
      * the error wraps a ValueError of _validate_and_extract (operands with more than one offset unit, or an offset
        unit inside a compound without autoconvert: no physical value is defined for them) -> exempt, equality False
      * anything else raises for operands of the SAME dimensionality: `==` answers False for physically equal values
        while ordering (which compares root-unit magnitudes) finds them equal: equality is not transitive."""
    from .. import shape as _s
    fe = ix.func(PQ, "PlainQuantity.__eq__")
    handlers = [h for t in walk_local(fe.node) if isinstance(t, ast.Try) for h in t.handlers
                if h.type is not None and "DimensionalityError" in norm(h.type)
                and any(isinstance(c, ast.Call) and "_convert_magnitude" in call_name(c) for st in t.body for c in ast.walk(st))]
    ck.floor("G-ERR", len(handlers), 1, "handler of DimensionalityError around the conversion in PlainQuantity.__eq__")
    # Does the handler answer False for EVERY conversion failure?  A `return <False>` of the handler that executes where
    # the dimensionalities are known to differ, or inside the handler of a second attempt (comparison in root units),
    # is fine; an unconditional one makes the classification of the raise sites below decisive.
    dims_equal = lambda a_: isinstance(a_, ast.Compare) and len(a_.ops) == 1 and isinstance(a_.ops[0], ast.Eq) and all("dimensionality" in norm(x) for x in (a_.left, a_.comparators[0]))
    def falsy(v):
        return (isinstance(v, ast.Constant) and v.value is False) or (isinstance(v, ast.Call) and v.args and isinstance(v.args[0], ast.Constant) and v.args[0].value is False)
    unconditional = []
    for h in handlers:
        for r in [r for st in h.body for r in ast.walk(st) if isinstance(r, ast.Return) and r.value is not None and falsy(r.value)]:
            nested = False
            cur = getattr(r, "_parent", None)
            while cur is not None and cur is not h:
                nested = nested or isinstance(cur, ast.ExceptHandler)
                cur = getattr(cur, "_parent", None)
            if not nested and not _s.holds_at(r, fe.node, dims_equal, False):
                unconditional.append(r)
    if not unconditional:
        ck.ok("G-ERR", "__eq__|conversion-failure-means-different-dimension|handler", fe.loc(), "the handler answers False only for different dimensionalities (otherwise it compares root-unit magnitudes)")
        return
    dim_differs = lambda a_: isinstance(a_, ast.Compare) and len(a_.ops) == 1 and isinstance(a_.ops[0], ast.Eq) and all("dim" in norm(x).lower() for x in (a_.left, a_.comparators[0]))
    n = 0
    for mod, q in (("pint.facets.nonmultiplicative.registry", "GenericNonMultiplicativeRegistry._convert"), ("pint.facets.context.registry", "GenericContextRegistry._convert"),
                   ("pint.facets.plain.registry", "GenericPlainRegistry._convert")):
        f = ix.func(mod, q)
        ck.analysed(f)
        fn = f.node
        for r in [r for r in ast.walk(fn) if isinstance(r, ast.Raise) and r.exc is not None and "DimensionalityError" in norm(r.exc) and not _s.dead(r, fn)]:
            n += 1
            if _s.holds_at(r, fn, dim_differs, False):
                ck.ok("G-ERR", f"__eq__|conversion-failure-means-different-dimension|{q.split('.')[-2]}|dimension-mismatch", f.loc(r), "raised where the dimensionalities are known to differ")
                continue
            par = getattr(r, "_parent", None)
            if isinstance(par, ast.ExceptHandler) and par.type is not None and "ValueError" in norm(par.type):
                ck.ok("G-ERR", f"__eq__|conversion-failure-means-different-dimension|{q.split('.')[-2]}|invalid-offset-combination", f.loc(r), "wraps the ValueError of _validate_and_extract: the operand has no defined physical value")
                continue
            facts = [(norm(a_), t_) for a_, t_ in _s.facts_at(r, fn)]
            side = "offset-source-to-delta-destination" if any("src" in a_ and "offset" in a_ and t_ for a_, t_ in facts) else ("delta-source-to-offset-destination" if any("dst" in a_ and "offset" in a_ and t_ for a_, t_ in facts) else "other")
            ck.check(False, "G-ERR", f"__eq__|conversion-failure-means-different-dimension|{side}", f.loc(r), "",
                     f"`{norm(r)}` raises DimensionalityError for operands of the SAME dimensionality (facts: {[a_ for a_, t_ in facts if t_][:3]}); PlainQuantity.__eq__ answers False for it, so physically equal quantities compare unequal while ordering finds them equal")
    ck.floor("G-ERR", n, 3, "raise DimensionalityError sites in the registry _convert chain")
