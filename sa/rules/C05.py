"""C05 — equality, ordering and hashing agree with physical value."""
from __future__ import annotations

import ast

from ..flow import call_name, dotted, norm
from ..index import AnalysisError, walk_local
from ..lib import cfg_of, defs_of, edge_leads_only_to_raise, live, nodes_with, return_nodes, undominated, witness
from ..tags import Tagger

PQ = "pint.facets.plain.quantity"
PU = "pint.facets.plain.unit"

EXPLANATION = (
    "Static analysis (no execution): G-TAG abstract interpretation of PlainQuantity.__eq__ and compare over the unit-tag "
    "domain (magnitudes are compared only when expressed in the same units; ordering through root units requires the "
    "dimensionality test on the path; a zero test standing in for a comparison requires both quantities to be known "
    "multiplicative, so 0 degC is never equated with 0 kelvin; a bare number is only compared with a magnitude converted "
    "to dimensionless or as zero on multiplicative/base units); hash granularity (the tuple hashed by __hash__ contains "
    "only functions of the base-unit magnitude and the dimensionality, and the magnitude is always taken after "
    "to_base_units); registry identity is checked in compare before any magnitude is read; across dimensions compare "
    "raises and __eq__ returns False; __ne__ is the negation of __eq__; the rich-comparison lambdas pass the matching "
    "operator; Unit comparisons go through 1*unit quantities; compat.eq/zero_or_nan reduce with all(). Does not "
    "decide transitivity/trichotomy as laws, float ties or array semantics.")
EXPLANATION += ' Also decided (rules added after the second round of seeded changes): the predicate that selects the bare-magnitude hash is `dimensionless` of the base form (what __eq__ uses against numbers); the per-object dimensionality memo read by __eq__/compare is validated against the units; no comparison calls an in-place conversion primitive.'


def run(ck, ix, tier):
    ck.rule("G-TAG", "abstract interpretation over the unit-tag domain")
    obl = 0
    for name in ("__eq__", "compare"):
        fi = ix.func(PQ, f"PlainQuantity.{name}")
        ck.analysed(fi)
        t = Tagger(ck, fi, "G-TAG")
        t.run()
        obl += t.n_obl
    ck.floor("G-TAG", obl, 5, "tag obligations in __eq__/compare")

    # ------------------------------------------------------------ __eq__ structure
    eq_zero_rule(ck, ix)
    fi = ix.func(PQ, "PlainQuantity.__eq__")
    cfg = cfg_of(fi)
    # DimensionalityError -> False
    trys = [t for t in walk_local(fi.node) if isinstance(t, ast.Try) and any(h.type is not None and "DimensionalityError" in norm(h.type) for h in t.handlers)]
    ck.check(bool(trys), "G-ERR", "PlainQuantity.__eq__|incompatible-units-compare-unequal", fi.loc(), "conversion failure handled", "__eq__ no longer handles DimensionalityError from the conversion")
    for t in trys:
        for h in t.handlers:
            rets = [r for r in ast.walk(h) if isinstance(r, ast.Return)]
            ck.check(bool(rets) and all("False" in norm(r) for r in rets), "G-ERR", "PlainQuantity.__eq__|different-dimension-returns-False", fi.loc(h),
                     "different dimensions compare unequal", "a DimensionalityError in __eq__ does not result in False")
    # not-a-quantity, not zero, not dimensionless -> False
    fi_ne = ix.func(PQ, "PlainQuantity.__ne__")
    ck.analysed(fi_ne)
    src = norm(fi_ne.node)
    from .. import shape as _sh5
    rets_ = [_sh5.rnorm(r.value, fi_ne.node) for r in _sh5.returns_of(fi_ne.node)]
    ck.check(sorted(rets_) == ["not self.__eq__(other)", "np.logical_not(self.__eq__(other))"], "G-TWIN", "PlainQuantity.__ne__|negation-of-eq", fi_ne.loc(), "__ne__ negates __eq__", "__ne__ is no longer the negation of __eq__")

    # ------------------------------------------------------------ compare: order of checks
    fi = ix.func(PQ, "PlainQuantity.compare")
    cfg = cfg_of(fi)
    reg = [n.id for n in cfg.nodes if n.kind == "test" and "_REGISTRY" in norm(n.ast) and ("is not" in norm(n.ast) or "is " in norm(n.ast))]
    ck.check(bool(reg), "G-DOM", "PlainQuantity.compare|registry-identity-tested", fi.loc(), "registry identity is tested", "compare no longer tests that both quantities belong to the same registry")
    reads = nodes_with(cfg, lambda x: isinstance(x, ast.Attribute) and x.attr in ("_magnitude", "magnitude", "_units") and dotted(x.value) == "other")
    reads += nodes_with(cfg, lambda x: isinstance(x, ast.Call) and call_name(x) == "to_root_units" and dotted(x.func.value) == "other")
    for r in live(cfg, sorted(set(reads))):
        if r in reg:
            continue
        p = undominated(cfg, [r], reg)
        ck.check(p is None, "G-DOM", f"PlainQuantity.compare|registry-check-before-reading-other|{cfg.nodes[r].text()[:50]}", fi.loc(cfg.nodes[r].ast),
                 "other's magnitude/units are only read after the registry identity test",
                 f"`{cfg.nodes[r].text()}` reads the other quantity before the registry identity test: quantities of different registries compare silently", witness(cfg, p))
    for g in reg:
        lab = "t" if "is not" in norm(cfg.nodes[g].ast) else "f"
        p = edge_leads_only_to_raise(cfg, g, lab)
        ck.check(p is None, "G-DOM", "PlainQuantity.compare|different-registries-raise", fi.loc(cfg.nodes[g].ast), "different registries raise ValueError", "different registries do not raise", witness(cfg, p))
    dim = [n.id for n in cfg.nodes if n.kind == "test" and "self.dimensionality" in norm(n.ast) and "other.dimensionality" in norm(n.ast)]
    for g in dim:
        p = edge_leads_only_to_raise(cfg, g, "t" if "!=" in norm(cfg.nodes[g].ast) else "f")
        ck.check(p is None, "G-DOM", "PlainQuantity.compare|different-dimensions-raise", fi.loc(cfg.nodes[g].ast), "ordering across dimensions raises DimensionalityError", "ordering across dimensions does not raise", witness(cfg, p))
    ck.check(bool(dim), "G-DOM", "PlainQuantity.compare|dimensionality-tested", fi.loc(), "dimensionality tested before ordering", "compare no longer tests dimensionality before ordering through root units")
    # ordering through conversions that keep the offset: to_root_units on both (not a bare factor)
    fin = [r for r in walk_local(fi.node) if isinstance(r, ast.Return) and "to_root_units" in norm(r)]
    ck.check(any(norm(r.value) == "op(self.to_root_units().magnitude, other.to_root_units().magnitude)" or
                 (norm(r.value).count("to_root_units()") == 2 and norm(r.value).startswith("op(")) for r in fin),
             "G-TAG", "PlainQuantity.compare|both-operands-converted-to-root-units", fi.loc(), "both operands are converted to root units as quantities (offsets included)",
             "compare no longer orders by the root-unit magnitudes of both operands")
    ci = ix.cls(PQ, "PlainQuantity")
    for nm, op in (("__lt__", "operator.lt"), ("__le__", "operator.le"), ("__ge__", "operator.ge"), ("__gt__", "operator.gt")):
        m = ci.methods.get(nm)
        src = norm(m.node) if m is not None else ""
        ck.check(f"self.compare(other, op={op})" in src, "G-TABLE", f"PlainQuantity.{nm}|uses-{op}", m.loc() if m else PQ, f"{nm} -> compare(other, {op})", f"{nm} does not call compare with {op}")
    cu = ix.cls(PU, "PlainUnit")
    for nm, op in (("__lt__", "operator.lt"), ("__le__", "operator.le"), ("__ge__", "operator.ge"), ("__gt__", "operator.gt")):
        m = cu.methods.get(nm)
        src = norm(m.node) if m is not None else ""
        ck.check(f"self.compare(other, op={op})" in src, "G-TABLE", f"PlainUnit.{nm}|uses-{op}", m.loc() if m else PU, f"{nm} -> compare(other, {op})", f"Unit.{nm} does not call compare with {op}")
    fu = ix.func(PU, "PlainUnit.compare")
    ck.analysed(fu)
    src = norm(fu.node)
    rets_ = sorted(_sh5.rnorm(r.value, fu.node) for r in _sh5.returns_of(fu.node))
    rets_ = [r for r in rets_ if r != "NotImplemented"]
    ck.check(rets_ == ["self._REGISTRY.Quantity(1, self).compare(other, op)", "self._REGISTRY.Quantity(1, self).compare(self._REGISTRY.Quantity(1, other), op)"], "G-TWIN",
             "PlainUnit.compare|via-unit-quantities", fu.loc(), "units are ordered as 1*unit quantities", "Unit.compare no longer compares 1*self with 1*other")

    # ------------------------------------------------------------ hash granularity
    fi = ix.func(PQ, "PlainQuantity.__hash__")
    ck.analysed(fi)
    defs = defs_of(fi)
    base = [nm for nm, ds in defs.defs.items() if any(v is not None and norm(v) == "self.to_base_units()" for v, k, s in ds)]
    ck.check(len(base) == 1, "G-PROV", "PlainQuantity.__hash__|via-base-units", fi.loc(), "hash computed from the base-unit form", "__hash__ no longer converts to base units first")
    if base:
        b = base[0]
        for h in [c for c in walk_local(fi.node) if isinstance(c, ast.Call) and isinstance(c.func, ast.Name) and c.func.id == "hash"]:
            comps = h.args[0].elts if isinstance(h.args[0], ast.Tuple) else [h.args[0]]
            for c in comps:
                s = norm(_sh5.unalias(c, fi.node))      # `m = base.magnitude` hoisted
                allowed = s in (f"{b}.magnitude", f"{b}._magnitude", f"{b}.m", f"{b}.__class__", f"{b}.dimensionality", "self.dimensionality", f"type({b})", "self.__class__")
                ck.check(allowed, "G-PROV", f"PlainQuantity.__hash__|hash-granularity|{s}", fi.loc(h),
                         f"`{s}` is a function of (base magnitude, dimensionality, class)",
                         f"__hash__ hashes `{s}`: equal quantities can differ in it (units that still distinguish dimensionless base units, or a magnitude not converted to base units)")
        # every hash() call must use the converted object, and the dimensionless shortcut must come after the conversion
        cfg = cfg_of(fi)
        conv = nodes_with(cfg, lambda x: isinstance(x, ast.Call) and call_name(x) == "to_base_units")
        hs = nodes_with(cfg, lambda x: isinstance(x, ast.Call) and isinstance(x.func, ast.Name) and x.func.id == "hash")
        for hn in live(cfg, hs):
            p = undominated(cfg, [hn], conv)
            ck.check(p is None, "G-PROV", "PlainQuantity.__hash__|magnitude-converted-before-hashing", fi.loc(cfg.nodes[hn].ast), "hash only after to_base_units",
                     "a hash is computed on a path that skips to_base_units (equal dimensionless quantities in scaled units would hash differently)", witness(cfg, p))
        # the branch that hashes the bare magnitude (so that q == 3 implies hash(q) == hash(3)) must be taken exactly when
        # __eq__ compares with bare numbers, i.e. for every *dimensionless* quantity (radian, count, ... included), and
        # every other quantity must hash what __eq__ compares (dimensionality, not the units)
        from .. import shape
        dimless = lambda a: norm(a) in (f"{b}.dimensionless", "self.dimensionless")
        for tst in [n for n in cfg.nodes if n.kind == "test"]:
            pos = [norm(a) for a, _ in shape.atoms(tst.ast)]
            ck.check(all(p in (f"{b}.dimensionless", "self.dimensionless") for p in pos), "G-PROV", "PlainQuantity.__hash__|dimensionless-shortcut-on-base-form", fi.loc(tst.ast), "bare-magnitude hash for every dimensionless quantity",
                     f"`{norm(tst.ast)}` selects the hash granularity: the bare-magnitude hash must be taken exactly for dimensionless quantities (the predicate __eq__ uses for bare numbers); 1 radian == 1 but would hash differently")
        for h in [c for c in walk_local(fi.node) if isinstance(c, ast.Call) and isinstance(c.func, ast.Name) and c.func.id == "hash"]:
            bare = not isinstance(h.args[0], ast.Tuple)
            ck.check(shape.holds_at(h, fi.node, dimless, bare), "G-PROV", f"PlainQuantity.__hash__|{'bare' if bare else 'tuple'}-hash-on-the-right-side", fi.loc(h),
                     "bare magnitude hashed for dimensionless quantities, (class, magnitude, dimensionality) otherwise",
                     f"`{norm(h)}` is computed on the wrong side of the dimensionless test")
    fh = ix.func(PU, "PlainUnit.__hash__")
    ck.check("self._units.__hash__()" in norm(fh.node) or "hash(self._units)" in norm(fh.node), "G-PROV", "PlainUnit.__hash__|container-hash", fh.loc(), "unit hash = container hash", "PlainUnit.__hash__ is no longer the container hash")

    # ------------------------------------------------------------ __bool__ and helpers
    fb = ix.func(PQ, "PlainQuantity.__bool__")
    cfgb = cfg_of(fb)
    g = [n.id for n in cfgb.nodes if n.kind == "test" and norm(n.ast) == "self._is_multiplicative"]
    ck.check(bool(g) and all(edge_leads_only_to_raise(cfgb, x, "f") is None for x in g), "G-DOM", "PlainQuantity.__bool__|offset-units-raise", fb.loc(), "truth value of offset quantities raises", "bool() of an offset quantity no longer raises")
    fe = ix.func("pint.compat", "eq")
    ck.analysed(fe)
    src = norm(fe.node)
    cm = ix.module("pint.compat")

    def reductions(fn):
        """names of the array reductions (.all/.any) applied in fn or in the same-module helpers it calls"""
        out, seen, todo = [], set(), [fn]
        while todo:
            g = todo.pop()
            if g.name in seen:
                continue
            seen.add(g.name)
            for c in walk_local(g.node):
                if isinstance(c, ast.Call) and isinstance(c.func, ast.Attribute) and c.func.attr in ("all", "any") and not c.args:
                    out.append(c.func.attr)
                if isinstance(c, ast.Call) and isinstance(c.func, ast.Name) and c.func.id in cm.functions and c.func.id.startswith("_"):
                    todo.append(cm.functions[c.func.id])
        return out
    red = reductions(fe)
    has_eq = any(isinstance(c, ast.Compare) and isinstance(c.ops[0], ast.Eq) and norm(c) in ("lhs == rhs", "rhs == lhs") for c in walk_local(fe.node))
    ck.check(has_eq and "all" in red and "any" not in red, "G-PROV", "compat.eq|elementwise-then-all", fe.loc(), "== then all() when check_all", f"compat.eq must compare with == and reduce with all() under check_all (reductions found: {red})")
    fz = ix.func("pint.compat", "zero_or_nan")
    red = reductions(fz)
    summ = any(isinstance(b2, ast.BinOp) and isinstance(b2.op, (ast.Add, ast.BitOr)) and sorted([norm(b2.left), norm(b2.right)]) == ["eq(obj, 0, False)", "isnan(obj, False)"] for b2 in walk_local(fz.node))
    ck.check(summ and "all" in red and "any" not in red, "G-PROV", "compat.zero_or_nan|zero-or-nan-all", fz.loc(), "(== 0) | isnan, reduced with all()", f"compat.zero_or_nan is no longer (obj == 0) + isnan(obj) reduced with all() (reductions found: {red})")
    from .. import memo as _memo
    _memo.rule_quantity_dimensionality_memo(ck, ix)  # __eq__/compare read Quantity.dimensionality
    from .C16 import inplace_primitives_rule
    inplace_primitives_rule(ck, ix)  # only in-place forms may rescale/rebind their target
    return EXPLANATION


def eq_zero_rule(ck, ix):
    """The both-zero shortcut of __eq__ must carry both multiplicativity conjuncts (D4); G-TAG zero test."""
    fi = ix.func(PQ, "PlainQuantity.__eq__")
    ck.analysed(fi)
    cfg = cfg_of(fi)
    t0 = Tagger(ck, fi, "G-TAG")
    t0.run()
    # the both-zero shortcut must carry both multiplicativity conjuncts (D4) - explicit rule in addition to G-TAG
    from .. import shape
    for t in [n for n in cfg.nodes if n.kind == "test" and "eq(self._magnitude, 0, True)" in norm(n.ast)]:
        s = shape.rnorm(t.ast, fi.node)
        ck.check("self._is_multiplicative" in s and "other._is_multiplicative" in s, "G-TAG", "PlainQuantity.__eq__|both-zero-shortcut-requires-multiplicative", fi.loc(t.ast),
                 "the both-zero shortcut only applies when both quantities are multiplicative",
                 "the both-zero shortcut answers by dimensionality although an operand may carry an offset/log unit (0 degC == 0 kelvin would be True)")
        succ = [v for (v, lab) in cfg.succ[t.id] if lab == "t"]
        for sx in succ:
            r = cfg.nodes[sx].ast
            while not isinstance(r, ast.Return) and isinstance(r, ast.Assign) and len(cfg.succ[sx]) == 1:   # a hoisted temporary before the return
                sx = cfg.succ[sx][0][0]
                r = cfg.nodes[sx].ast
            ck.check(isinstance(r, ast.Return) and "self.dimensionality == other.dimensionality" in shape.rnorm(r.value, fi.node), "G-PROV", "PlainQuantity.__eq__|both-zero-answer-is-dimensionality-equality", fi.loc(r),
                     "two zeros are equal iff the dimensionalities are", f"`{norm(r)}` is not the dimensionality comparison")
