"""C20 — the bundled registry carries the internationally standardised values (G-DATA)."""
from __future__ import annotations

import json
import os
import re
from decimal import Decimal
from fractions import Fraction

from .. import defreader
from ..index import AnalysisError

VERIF = os.path.dirname(os.path.dirname(os.path.dirname(os.path.abspath(__file__))))

EXPLANATION = (
    "Static analysis of data: an independent reader of pint/default_en.txt and pint/constants_en.txt (own tokenizer, "
    "expression grammar with juxtaposition, name resolution exact-then-prefix+unit+plural, exact rational arithmetic; "
    "shares no code with pint and does not import it) reduces every entry to an exact factor over the file's base "
    "units; each entry of /verif/spec/standard_values.json (curated from the SI brochure, NIST SP 811 / Handbook 44, the "
    "1959 yard-pound agreement, the UK Weights and Measures Act 1985, IEC 80000-13 and CODATA 2022; derived there from "
    "primitive definitions with exact rationals) is compared for exact factor, dimensionality, standard symbol and, for "
    "temperature scales, scale and offset; measured constants digit for digit with the literal in the file; angles as "
    "rational multiples of the file's π literal. Exhaustive over the table; the reader also checks that every entry of "
    "the files resolves, has no cycle and no spelling is claimed by two units. Does not decide that pint's own "
    "interpreter reads the files the same way (C02/C10) nor float accuracy.")
EXPLANATION += ' Also decided (rules added after the second round of seeded changes): a lazily registered prefixed unit can never be stored under a symbol (one registration, long name only); 116 further entries: CODATA-2022 derived constants to their published digits, conventional 1990 electrical units, conventional manometer liquids, logarithmic units (reference, logbase, logfactor).'

BASE_DIM = {"[length]": "meter", "[mass]": "gram", "[time]": "second", "[current]": "ampere", "[temperature]": "kelvin", "[substance]": "mole", "[luminosity]": "candela"}


def run(ck, ix, tier):
    ck.rule("G-DATA", "exact value / dimensionality / symbol of a file entry equals the curated standard value")
    d = defreader.load_default(ix.repo)
    spec = json.load(open(os.path.join(VERIF, "spec", "standard_values.json"), encoding="utf-8"))["entries"]
    ck.floor("G-DATA", len(spec), 200, "entries in spec/standard_values.json")
    ck.floor("G-DATA", len(d.units), 150, "unit definitions read from the bundled files")
    FILES = "pint/default_en.txt"
    # internal consistency of the files
    errors = []
    for n in d.units:
        try:
            d.value_of(n)
            for m in d.units[n]["modifiers"]:
                d.modifier_number(n, m)
        except defreader.DefError as e:
            errors.append(f"{n}: {e}")
    ck.check(not errors, "G-DATA", "files|every-definition-resolves", FILES, f"{len(d.units)} unit definitions resolve to base units without cycle", f"definitions that do not resolve: {errors[:5]}")
    ck.check(not d.duplicates, "G-DATA", "files|no-spelling-claimed-twice", FILES, "no name/symbol/alias is claimed by two units", f"spellings claimed by two definitions: {d.duplicates[:5]}")
    perr = []
    for p in d.prefixes:
        try:
            d.prefix_value(p)
        except defreader.DefError as e:
            perr.append(f"{p}: {e}")
    ck.check(not perr, "G-DATA", "files|every-prefix-evaluates", FILES, f"{len(d.prefixes)} prefixes evaluate", f"prefixes that do not evaluate: {perr}")

    covered = set()
    pi = d.value_of("pi").f
    for e in spec:
        name, kind = e["name"], e["kind"]
        key = f"{kind}:{name}"
        if kind == "prefix":
            if name not in d.prefixes:
                ck.fail("G-DATA", key + "|present", FILES, f"standard prefix `{name}` is not defined in the bundled file")
                continue
            got = d.prefix_value(name)
            ck.check(got == Fraction(e["si"]), "G-DATA", key + "|value", FILES, f"{name}- = {e['si']}", f"prefix {name}- is {got} in the file, standard value {e['si']} ({e['source']})")
            sym = d.prefixes[name]["symbol"]
            ck.check(sym in e["symbol"], "G-DATA", key + "|symbol", FILES, f"symbol {sym}", f"prefix {name}- has symbol `{sym}` in the file, standard symbol {e['symbol']} ({e['source']})")
            continue
        if name not in d.units:
            ck.fail("G-DATA", key + "|present", FILES, f"standard entry `{name}` is not defined in the bundled files")
            continue
        covered.add(name)
        rec = d.units[name]
        if kind == "measured":
            m = re.match(r"\s*([+-]?\d+\.?\d*(?:[eE][+-]?\d+)?)", rec["expr"])
            lit = m.group(1) if m else None
            ck.check(lit is not None and Decimal(lit) == Decimal(e["digits"]), "G-DATA", key + "|digits", FILES, f"{name} = {lit}",
                     f"{name} is written as {lit} in the file; {e['source']} gives {e['digits']}")
            if "dims" in e:
                dims = {k: Fraction(x) for k, x in d.dimensionality(name).items()}
                wdims = {k: Fraction(x) for k, x in e["dims"].items()}
                ck.check(dims == wdims, "G-DATA", key + "|dimensionality", FILES, f"dimensionality {e['dims']}", f"{name} has dimensionality { {k: str(x) for k, x in dims.items()} } in the file, standard: {e['dims']}")
            continue
        if kind == "approx":
            v = d.value_of(name)
            si = v.f * Fraction(1, 1000) ** v.dims.get("gram", 0)
            want = Fraction(e["value"])
            tol = Fraction(e["rel_tol"])
            ck.check(abs(si - want) <= tol * abs(want), "G-DATA", key + "|value", FILES, f"{name} = {e['value']} (SI) within {e['rel_tol']}",
                     f"{name} evaluates to {float(si)!r} (SI) from the file's formula; the standard value is {e['value']} (relative tolerance {e['rel_tol']}) [{e['source']}]")
            dims = {k: Fraction(x) for k, x in d.dimensionality(name).items()}
            wdims = {k: Fraction(x) for k, x in e["dims"].items()}
            ck.check(dims == wdims, "G-DATA", key + "|dimensionality", FILES, f"dimensionality {e['dims']}", f"{name} has dimensionality { {k: str(x) for k, x in dims.items()} } in the file, standard: {e['dims']}")
            if e.get("symbol"):
                sym = rec["symbol"] or name
                ck.check(sym in e["symbol"], "G-DATA", key + "|symbol", FILES, f"symbol {sym}", f"{name} has symbol `{sym}` in the file, standard symbol {e['symbol']} ({e['source']})")
            continue
        if kind == "log_unit":
            v = d.value_of(name)
            si = v.f * Fraction(1, 1000) ** v.dims.get("gram", 0)
            ck.check(si == Fraction(e["si"]), "G-DATA", key + "|reference", FILES, f"reference {e['si']}", f"{name} has reference level {si} (SI) in the file; standard: {e['si']}")
            lb_, lf_ = d.modifier_number(name, "logbase"), d.modifier_number(name, "logfactor")
            if e["logbase"] == "e":
                okb = lb_ is not None and abs(lb_ - Fraction("2.718281828459045235360287471352662497757")) < Fraction(1, 10 ** 30)
            else:
                okb = lb_ == Fraction(e["logbase"])
            ck.check(okb, "G-DATA", key + "|logbase", FILES, f"logbase {e['logbase']}", f"{name} has logbase {float(lb_) if lb_ is not None else None} in the file; standard: {e['logbase']}")
            ck.check(lf_ == Fraction(e["logfactor"]), "G-DATA", key + "|logfactor", FILES, f"logfactor {e['logfactor']}", f"{name} has logfactor {lf_} in the file; standard: {e['logfactor']} ({e['source']})")
            if e.get("symbol"):
                sym = rec["symbol"] or name
                ck.check(sym in e["symbol"], "G-DATA", key + "|symbol", FILES, f"symbol {sym}", f"{name} has symbol `{sym}` in the file, standard symbol {e['symbol']}")
            continue
        v = d.value_of(name)
        g = v.dims.get("gram", 0)
        si = v.f * Fraction(1, 1000) ** g
        if kind == "angle":
            want = pi * Fraction(e["pi_multiple"])
            ck.check(v.f == want, "G-DATA", key + "|value", FILES, f"{name} = {e['pi_multiple']} π rad", f"{name} is {float(v.f)!r} rad in the file, standard value {e['pi_multiple']} π rad = {float(want)!r} ({e['source']})")
        else:
            want = Fraction(e["si"])
            ck.check(v.exact and si == want, "G-DATA", key + "|value", FILES, f"{name} = {e['si']} (SI)",
                     f"{name} converts to SI with factor {si} (~{float(si)!r}) in the file; the standard value is {want} (~{float(want)!r}) [{e['source']}]")
        dims = {k: Fraction(x) for k, x in d.dimensionality(name).items()}
        wdims = {k: Fraction(x) for k, x in e["dims"].items()}
        ck.check(dims == wdims, "G-DATA", key + "|dimensionality", FILES, f"dimensionality {e['dims']}", f"{name} has dimensionality { {k: str(x) for k, x in dims.items()} } in the file, standard: {e['dims']}")
        if e.get("symbol"):
            sym = rec["symbol"] or name  # a unit without explicit symbol is written by its name
            ck.check(sym in e["symbol"], "G-DATA", key + "|symbol", FILES, f"symbol {sym}", f"{name} has symbol `{sym}` in the file, standard symbol {e['symbol']} ({e['source']})")
        if kind == "offset_unit":
            off = d.modifier_number(name, "offset")
            want_off = Fraction(e["offset"])
            ck.check(off is not None and off == want_off, "G-DATA", key + "|offset", FILES, f"offset {e['offset']} K",
                     f"{name} has offset {off} in the file; standard: {want_off} K ({e['source']})")
    ck.extra["file_units"] = len(d.units)
    ck.extra["file_units_covered_by_spec"] = len(covered)
    ck.extra["file_units_not_in_spec"] = sorted(set(d.units) - covered)[:400]
    # groups and systems named in the property exist and contain their standard members
    for grp, members in (("Avoirdupois", ["pound", "ounce", "dram", "stone", "ton", "long_ton"]), ("Troy", ["pennyweight", "troy_ounce", "troy_pound"]),
                         ("Apothecary", ["scruple", "apothecary_dram", "apothecary_ounce", "apothecary_pound"]), ("ImperialVolume", ["imperial_gallon", "imperial_pint", "imperial_fluid_ounce"]),
                         ("USCSLiquidVolume", ["gallon", "quart", "pint", "fluid_ounce"]), ("USCSLengthInternational", ["inch", "foot", "yard", "mile"])):
        g = d.groups.get(grp)
        ok = g is not None and all(m in g["units"] for m in members)
        ck.check(ok, "G-DATA", f"group:{grp}|members", FILES, f"group {grp} holds {members}", f"group {grp} is missing or lacks some of {members}")
    from .. import memo as _memo
    _memo.rule_lazy_prefixed_units(ck, ix)  # a bundled symbol must not be shadowed by a lazily added prefixed unit
    return EXPLANATION
