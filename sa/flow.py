"""E4/E5 helpers: normalised expressions, local def-use, access paths, writes, may-raise."""
from __future__ import annotations

import ast
from typing import Iterable, Optional

from .index import FuncInfo, Index, Resolver, walk_local


def norm(e: ast.AST) -> str:
    """Position-free normal form of an expression/statement."""
    if e is None:
        return "None"
    try:
        return ast.unparse(e)
    except Exception:
        return ast.dump(e)


def clone(e: ast.AST) -> ast.AST:
    """Fresh copy of an expression tree without the index's back-pointers (_parent)."""
    try:
        return ast.parse(ast.unparse(e), mode="eval").body
    except SyntaxError:
        m = ast.parse(ast.unparse(e))
        return m.body[0] if len(m.body) == 1 else m


def dotted(e: ast.AST) -> Optional[str]:
    """'self._cache.root_units' for Name/Attribute chains, else None."""
    parts = []
    while isinstance(e, ast.Attribute):
        parts.append(e.attr)
        e = e.value
    if isinstance(e, ast.Name):
        parts.append(e.id)
        return ".".join(reversed(parts))
    return None


def params(fn: ast.AST) -> list:
    a = fn.args
    out = [x.arg for x in a.posonlyargs + a.args]
    if a.vararg:
        out.append(a.vararg.arg)
    out += [x.arg for x in a.kwonlyargs]
    if a.kwarg:
        out.append(a.kwarg.arg)
    return out


def calls_in(node: ast.AST) -> list:
    return [n for n in walk_local(node) if isinstance(n, ast.Call)] if isinstance(
        node, (ast.FunctionDef, ast.AsyncFunctionDef, ast.Lambda)) else [
        n for n in _walk_no_defs(node) if isinstance(n, ast.Call)]


def _walk_no_defs(node):
    stack = [node]
    while stack:
        n = stack.pop()
        yield n
        for c in ast.iter_child_nodes(n):
            if isinstance(c, (ast.FunctionDef, ast.AsyncFunctionDef, ast.ClassDef, ast.Lambda)):
                continue
            stack.append(c)


def call_name(c: ast.Call) -> str:
    """Last component of the callee ('_convert' for self._REGISTRY._convert(...))."""
    f = c.func
    if isinstance(f, ast.Attribute):
        return f.attr
    if isinstance(f, ast.Name):
        return f.id
    return ""


def is_call_to(n: ast.AST, *names: str) -> bool:
    return isinstance(n, ast.Call) and call_name(n) in names


def contains(node: ast.AST, pred) -> bool:
    return any(pred(n) for n in _walk_no_defs(node))


def find_all(node: ast.AST, pred) -> list:
    if isinstance(node, (ast.FunctionDef, ast.AsyncFunctionDef, ast.Lambda)):
        return [n for n in walk_local(node) if pred(n)]
    return [n for n in _walk_no_defs(node) if pred(n)]


# ---------------------------------------------------------------- local def-use
class Defs:
    """Flow-insensitive local definitions of a function."""

    def __init__(self, fn: ast.AST):
        self.fn = fn
        self.defs: dict[str, list] = {}  # name -> [(value_expr | None, kind, stmt)]
        self.params = params(fn) if not isinstance(fn, ast.Lambda) else [a.arg for a in fn.args.args]
        for n in walk_local(fn):
            if isinstance(n, ast.Assign):
                for t in n.targets:
                    self._bind(t, n.value, n)
            elif isinstance(n, ast.AnnAssign) and n.value is not None:
                self._bind(n.target, n.value, n)
            elif isinstance(n, ast.AugAssign):
                if isinstance(n.target, ast.Name):
                    self.defs.setdefault(n.target.id, []).append(
                        (ast.BinOp(left=ast.Name(id=n.target.id, ctx=ast.Load()), op=n.op, right=n.value), "aug", n))
            elif isinstance(n, (ast.For, ast.AsyncFor)):
                self._bind(n.target, n.iter, n, kind="iter")
            elif isinstance(n, ast.comprehension):
                self._bind(n.target, n.iter, n, kind="iter")
            elif isinstance(n, (ast.With, ast.AsyncWith)):
                for it in n.items:
                    if it.optional_vars is not None:
                        self._bind(it.optional_vars, it.context_expr, n, kind="with")
            elif isinstance(n, ast.NamedExpr):
                self._bind(n.target, n.value, n)
            elif isinstance(n, ast.ExceptHandler) and n.name:
                self.defs.setdefault(n.name, []).append((n.type, "except", n))
            elif isinstance(n, ast.Expr) and isinstance(n.value, ast.Call) and isinstance(n.value.func, ast.Attribute) \
                    and isinstance(n.value.func.value, ast.Name) and n.value.func.attr in ("append", "extend", "add", "update", "insert", "appendleft") and n.value.args:
                # a container filled in place derives from what is put into it (kind "fill": never inlined, only followed by roots())
                self.defs.setdefault(n.value.func.value.id, []).append((n.value.args[-1], "fill", n))

    def _bind(self, target, value, stmt, kind="assign"):
        if isinstance(target, ast.Name):
            self.defs.setdefault(target.id, []).append((value, kind, stmt))
        elif isinstance(target, (ast.Tuple, ast.List)):
            if isinstance(value, (ast.Tuple, ast.List)) and len(value.elts) == len(target.elts) and kind == "assign":
                for t, v in zip(target.elts, value.elts):
                    self._bind(t, v, stmt, kind)
            else:
                for i, t in enumerate(target.elts):
                    self._bind(t, value, stmt, kind=f"unpack{i}" if kind == "assign" else kind + f"-unpack{i}")
        elif isinstance(target, ast.Starred):
            self._bind(target.value, value, stmt, kind)

    def single(self, name: str):
        """The unique assigned value of a local name, or None."""
        d = self.defs.get(name, [])
        if len(d) == 1 and d[0][1] == "assign" and name not in self.params:
            return d[0][0]
        return None

    def inline(self, e: ast.AST, depth: int = 6) -> ast.AST:
        """Replace single-assignment temporaries by their defining expression (returns a fresh tree)."""
        defs = self

        class T(ast.NodeTransformer):
            def visit_Name(self, n):
                if isinstance(n.ctx, ast.Load) and depth > 0:
                    v = defs.single(n.id)
                    if v is not None and not isinstance(v, (ast.Lambda,)):
                        return defs.inline(v, depth - 1)
                return n

        return T().visit(clone(e))

    def roots(self, e: ast.AST, depth: int = 8, _seen=None) -> set:
        """Names/attribute paths/calls an expression ultimately derives from.

        Returns strings: parameter names, 'self.x.y' paths, 'call:<name>' for calls
        (whose arguments are also followed), 'const:<v>' for constants."""
        out = set()
        _seen = _seen if _seen is not None else set()

        def go(x, d):
            if x is None:
                return
            if isinstance(x, ast.Constant):
                out.add(f"const:{x.value!r}")
                return
            if isinstance(x, ast.Name):
                if x.id in self.defs and d > 0 and (x.id, d) not in _seen:
                    _seen.add((x.id, d))
                    if x.id in self.params:
                        out.add(x.id)
                    for (v, kind, st) in self.defs[x.id]:
                        if kind == "aug":
                            go(v.right, d - 1)
                        else:
                            go(v, d - 1)
                else:
                    out.add(x.id)
                return
            if isinstance(x, ast.Attribute):
                p = dotted(x)
                if p is not None:
                    out.add(p)
                    base = x
                    while isinstance(base, ast.Attribute):
                        base = base.value
                    if isinstance(base, ast.Name) and base.id in self.defs and base.id not in ("self", "cls"):
                        go(base, d)
                    return
                go(x.value, d)
                return
            if isinstance(x, ast.Call):
                out.add("call:" + call_name(x))
                if isinstance(x.func, ast.Attribute):
                    go(x.func.value, d)
                for a in x.args:
                    go(a.value if isinstance(a, ast.Starred) else a, d)
                for k in x.keywords:
                    go(k.value, d)
                return
            if isinstance(x, ast.Lambda):
                return
            for c in ast.iter_child_nodes(x):
                if isinstance(c, (ast.expr,)):
                    go(c, d)
                elif isinstance(c, ast.comprehension):
                    go(c.iter, d)
                    for i in c.ifs:
                        go(i, d)

        go(e, depth)
        return out


# ---------------------------------------------------------------- writes
MUTATORS = {
    "append", "add", "update", "pop", "remove", "clear", "insert", "setdefault", "extend",
    "discard", "popitem", "sort", "reverse", "appendleft", "popleft", "__setitem__", "__delitem__",
    "fill", "put", "itemset", "resize", "setflags",
}


def writes_in(fn: ast.AST) -> list:
    """[(path:str, kind:str, node)] — attribute stores, subscript stores, del, aug-assign,
    mutating method calls — with `path` the dotted access path of the written object."""
    out = []

    def target(t, node, kind_prefix=""):
        if isinstance(t, ast.Attribute):
            p = dotted(t)
            if p:
                out.append((p, kind_prefix + "attr-store", node))
        elif isinstance(t, ast.Subscript):
            p = dotted(t.value)
            if p:
                out.append((p, kind_prefix + "item-store", node))
        elif isinstance(t, (ast.Tuple, ast.List)):
            for e in t.elts:
                target(e, node, kind_prefix)
        elif isinstance(t, ast.Starred):
            target(t.value, node, kind_prefix)

    for n in walk_local(fn):
        if isinstance(n, ast.Assign):
            for t in n.targets:
                target(t, n)
        elif isinstance(n, ast.AnnAssign) and n.value is not None:
            target(n.target, n)
        elif isinstance(n, ast.AugAssign):
            target(n.target, n, "aug-")
        elif isinstance(n, ast.Delete):
            for t in n.targets:
                if isinstance(t, ast.Subscript):
                    p = dotted(t.value)
                    if p:
                        out.append((p, "item-del", n))
                elif isinstance(t, ast.Attribute):
                    p = dotted(t)
                    if p:
                        out.append((p, "attr-del", n))
        elif isinstance(n, ast.Call) and isinstance(n.func, ast.Attribute) and n.func.attr in MUTATORS:
            recv = n.func.value
            nested = False
            while isinstance(recv, ast.Subscript):  # table[key].add(x) mutates an element of `table`
                recv = recv.value
                nested = True
            p = dotted(recv)
            if p:
                out.append((p, ("elem-" if nested else "") + "call-" + n.func.attr, n))
    # a loop variable that ranges over a literal tuple/list of access paths is an alias of each of them:
    #   for stack in (self.contexts, self.maps): del stack[:n]
    alias = {}
    for n in walk_local(fn):
        if isinstance(n, (ast.For, ast.AsyncFor)) and isinstance(n.target, ast.Name) and isinstance(n.iter, (ast.Tuple, ast.List)):
            paths = [dotted(e) for e in n.iter.elts]
            if paths and all(paths):
                alias.setdefault(n.target.id, []).extend(paths)
    if alias:
        extra = []
        for (p, kind, node) in out:
            head, _, rest = p.partition(".")
            if head in alias:
                for q in alias[head]:
                    extra.append((q + ("." + rest if rest else ""), kind, node))
        out.extend(extra)
    return out


# ---------------------------------------------------------------- may-raise (E5)
class MayRaise:
    """Transitive 'contains an explicit raise that can escape' over resolved callees."""

    def __init__(self, ix: Index, resolver: Resolver):
        self.ix = ix
        self.rs = resolver
        self._memo: dict = {}

    def func_raises(self, fi: FuncInfo, _stack=None) -> set:
        """Set of exception class names that may escape fi (explicit raises only)."""
        if fi in self._memo:
            return self._memo[fi]
        _stack = _stack or set()
        if fi in _stack:
            return set()
        _stack = _stack | {fi}
        self._memo[fi] = set()  # provisional for recursion
        out = set()
        self._collect(fi, fi.node, out, _stack, [])
        self._memo[fi] = out
        return out

    def _collect(self, fi, node, out, stack, handlers):
        body = node.body if isinstance(node.body, list) else [node.body]
        for st in body:
            self._stmt(fi, st, out, stack, handlers)

    def _caught(self, name: str, handlers) -> bool:
        for hs in handlers:
            for h in hs:
                if h is None or h in ("Exception", "BaseException") or h == name:
                    return True
                if name in _PINT_EXC_PARENTS and h in _PINT_EXC_PARENTS[name]:
                    return True
        return False

    def _stmt(self, fi, st, out, stack, handlers):
        if isinstance(st, (ast.FunctionDef, ast.AsyncFunctionDef, ast.ClassDef)):
            return
        if isinstance(st, ast.Try):
            hs = []
            for h in st.handlers:
                if h.type is None:
                    hs.append(None)
                else:
                    for nm in (h.type.elts if isinstance(h.type, ast.Tuple) else [h.type]):
                        hs.append(nm.id if isinstance(nm, ast.Name) else getattr(nm, "attr", "?"))
            for s in st.body:
                self._stmt(fi, s, out, stack, handlers + [hs])
            for h in st.handlers:
                for s in h.body:
                    self._stmt(fi, s, out, stack, handlers)
            for s in st.orelse + st.finalbody:
                self._stmt(fi, s, out, stack, handlers)
            return
        if isinstance(st, ast.Raise):
            nm = "?"
            e = st.exc
            if isinstance(e, ast.Call):
                e = e.func
            if isinstance(e, ast.Name):
                nm = e.id
            elif isinstance(e, ast.Attribute):
                nm = e.attr
            elif st.exc is None:
                nm = "<reraise>"
            if not self._caught(nm, handlers):
                out.add(nm)
        # nested statements
        for fld in ("body", "orelse", "finalbody"):
            for s in getattr(st, fld, []) or []:
                if isinstance(s, ast.stmt):
                    self._stmt(fi, s, out, stack, handlers)
        # calls in this statement's own expressions
        for c in _own_calls(st):
            for callee in self.rs.resolve_call(fi, c):
                for nm in self.func_raises(callee, stack):
                    if not self._caught(nm, handlers):
                        out.add(nm)

    def stmt_may_raise(self, fi: FuncInfo, node: ast.AST) -> set:
        """Exception names that evaluating `node` (one statement/expr) may raise via raise/callees."""
        out = set()
        if isinstance(node, ast.Raise):
            out.add("raise")
        for c in _own_calls(node):
            for callee in self.rs.resolve_call(fi, c):
                out |= self.func_raises(callee)
        return out


def _own_calls(st: ast.AST) -> list:
    """Calls in the statement's own expressions (not in nested statement bodies)."""
    out = []
    stack = []
    for fld, val in ast.iter_fields(st):
        if fld in ("body", "orelse", "finalbody", "handlers"):
            continue
        if isinstance(val, ast.AST):
            stack.append(val)
        elif isinstance(val, list):
            stack.extend(v for v in val if isinstance(v, ast.AST))
    while stack:
        n = stack.pop()
        if isinstance(n, (ast.FunctionDef, ast.AsyncFunctionDef, ast.ClassDef, ast.Lambda)):
            continue
        if isinstance(n, ast.Call):
            out.append(n)
        stack.extend(ast.iter_child_nodes(n))
    return out


_PINT_EXC_PARENTS = {
    "DimensionalityError": {"PintTypeError", "TypeError", "PintError"},
    "OffsetUnitCalculusError": {"PintTypeError", "TypeError", "PintError"},
    "LogarithmicUnitCalculusError": {"PintTypeError", "TypeError", "PintError"},
    "UndefinedUnitError": {"AttributeError", "PintError"},
    "DefinitionSyntaxError": {"ValueError", "PintError"},
    "DefinitionError": {"ValueError", "PintError"},
    "RedefinitionError": {"ValueError", "PintError"},
    "PintTypeError": {"TypeError", "PintError"},
}
