"""G-INV / G-TWIN for converter methods: normalise the effect of a statement list on the
variable `value` into segments and compare twins / inverses by term rewriting."""
from __future__ import annotations

import ast

from .flow import call_name, norm
from .index import AnalysisError

FUNCS = {"log": "exp", "exp": "log"}


class NotInFragment(AnalysisError):
    pass


def _has_value(e, var):
    return any(isinstance(n, ast.Name) and n.id == var for n in ast.walk(e))


def _mul_terms(e, sign):
    """Flatten a multiplicative term expression into [(text, +-1)]."""
    if isinstance(e, ast.BinOp) and isinstance(e.op, ast.Mult):
        return _mul_terms(e.left, sign) + _mul_terms(e.right, sign)
    if isinstance(e, ast.BinOp) and isinstance(e.op, ast.Div):
        return _mul_terms(e.left, sign) + _mul_terms(e.right, -sign)
    return [(norm(e), sign)]


def expr_ops(e, var):
    """Operations applied to `var` by expression e, innermost first."""
    if isinstance(e, ast.Name) and e.id == var:
        return []
    if isinstance(e, ast.BinOp):
        l, r = _has_value(e.left, var), _has_value(e.right, var)
        if l and r:
            raise NotInFragment(f"`{norm(e)}` uses the value twice")
        if isinstance(e.op, (ast.Mult, ast.Div)):
            if l:
                return expr_ops(e.left, var) + [("M", t, s) for t, s in _mul_terms(e.right, 1 if isinstance(e.op, ast.Mult) else -1)]
            if isinstance(e.op, ast.Mult):
                return expr_ops(e.right, var) + [("M", t, s) for t, s in _mul_terms(e.left, 1)]
            raise NotInFragment(f"`{norm(e)}` divides by the value")
        if isinstance(e.op, (ast.Add, ast.Sub)):
            if l:
                return expr_ops(e.left, var) + [("A", norm(e.right), 1 if isinstance(e.op, ast.Add) else -1)]
            if isinstance(e.op, ast.Add):
                return expr_ops(e.right, var) + [("A", norm(e.left), 1)]
            raise NotInFragment(f"`{norm(e)}` subtracts the value")
    if isinstance(e, ast.Call) and call_name(e) in FUNCS and len(e.args) >= 1 and _has_value(e.args[0], var):
        return expr_ops(e.args[0], var) + [("F", call_name(e), 0)]
    raise NotInFragment(f"expression `{norm(e)}` outside the affine/log fragment")


def stmts_ops(stmts, var):
    """Operations applied to `var` by a statement list (no control flow except an
    `if HAS_NUMPY:` alternative whose branches must normalise identically)."""
    ops = []
    for st in stmts:
        if isinstance(st, ast.AugAssign) and isinstance(st.target, ast.Name) and st.target.id == var:
            if isinstance(st.op, (ast.Mult, ast.Div)):
                ops += [("M", t, s) for t, s in _mul_terms(st.value, 1 if isinstance(st.op, ast.Mult) else -1)]
            elif isinstance(st.op, (ast.Add, ast.Sub)):
                ops.append(("A", norm(st.value), 1 if isinstance(st.op, ast.Add) else -1))
            else:
                raise NotInFragment(f"`{norm(st)}`")
        elif isinstance(st, ast.Assign) and len(st.targets) == 1 and isinstance(st.targets[0], ast.Name) and st.targets[0].id == var:
            ops += expr_ops(st.value, var)
        elif isinstance(st, ast.Expr) and isinstance(st.value, ast.Call) and call_name(st.value) in FUNCS:
            c = st.value
            # numpy in-place form: log(value, value)
            if len(c.args) == 2 and norm(c.args[0]) == var and norm(c.args[1]) == var:
                ops.append(("F", call_name(c), 0))
            else:
                raise NotInFragment(f"`{norm(st)}` discards its result")
        elif isinstance(st, ast.If):
            a = stmts_ops(st.body, var)
            b = stmts_ops(st.orelse, var)
            if segments(a) != segments(b):
                raise NotInFragment(f"branches of `if {norm(st.test)}` differ: {a} vs {b}")
            ops += a
        elif isinstance(st, ast.Expr) and isinstance(st.value, ast.Constant):
            continue
        elif isinstance(st, ast.Return):
            if st.value is not None and norm(st.value) != var:
                ops += expr_ops(st.value, var)
            return ops          # nothing after a return executes
        else:
            raise NotInFragment(f"statement `{norm(st).splitlines()[0]}` outside the fragment")
    return ops


def segments(ops):
    """Group consecutive multiplicative / additive operations into order-insensitive segments."""
    segs = []
    for kind, term, sign in ops:
        if kind == "F":
            segs.append(("F", term))
        else:
            if segs and segs[-1][0] == kind:
                segs[-1][1].append((term, sign))
            else:
                segs.append((kind, [(term, sign)]))
    out = []
    for s in segs:
        if s[0] == "F":
            out.append(s)
        else:
            # cancel a term and its inverse inside one segment
            bag = {}
            for t, sg in s[1]:
                bag[t] = bag.get(t, 0) + sg
            out.append((s[0], tuple(sorted((t, n) for t, n in bag.items() if n != 0))))
    return [s for s in out if s[0] == "F" or s[1]]


def inverse(segs):
    out = []
    for s in reversed(segs):
        if s[0] == "F":
            out.append(("F", FUNCS[s[1]]))
        else:
            out.append((s[0], tuple(sorted((t, -n) for t, n in s[1]))))
    return out


def method_branches(fn: ast.FunctionDef, var="value", flag="inplace"):
    """Return (inplace_segments, functional_segments) of a converter method
    `if inplace: ... else: ...; return value` (or a method without the flag)."""
    body = [s for s in fn.body if not (isinstance(s, ast.Expr) and isinstance(s.value, ast.Constant))]
    ifs = [s for s in body if isinstance(s, ast.If) and norm(s.test) in (flag, f"not {flag}")]
    if not ifs:
        seg = segments(stmts_ops(body, var))
        return seg, seg
    st = ifs[0]
    pre = body[:body.index(st)]
    post = body[body.index(st) + 1:]
    a, b = (st.body, st.orelse) if norm(st.test) == flag else (st.orelse, st.body)
    ends = lambda blk: bool(blk) and isinstance(blk[-1], (ast.Return, ast.Raise))
    return (segments(stmts_ops(pre + a + ([] if ends(a) else post), var)), segments(stmts_ops(pre + b + ([] if ends(b) else post), var)))


def show(segs):
    parts = []
    for s in segs:
        if s[0] == "F":
            parts.append(s[1])
        else:
            sym = {"M": ("*", "/"), "A": ("+", "-")}[s[0]]
            parts.append(" ".join((sym[0] if n > 0 else sym[1]) + t + (f"^{abs(n)}" if abs(n) != 1 else "") for t, n in s[1]))
    return " ; ".join(parts) or "identity"
