"""Driver: /verif/check <ID> [--tier quick|thorough] [--replay <path>]"""
import importlib
import json
import os
import sys
import traceback

sys.path.insert(0, os.path.dirname(os.path.dirname(os.path.abspath(__file__))))

from sa.index import AnalysisError, Index  # noqa: E402
from sa.report import Checker  # noqa: E402


def main(argv):
    if not argv:
        print("usage: check <ID> [--tier quick|thorough] [--replay path]")
        return 2
    pid = argv[0]
    tier = os.environ.get("VERIF_TIER", "quick")
    replay = None
    i = 1
    while i < len(argv):
        if argv[i] == "--tier":
            tier = argv[i + 1]
            i += 2
        elif argv[i] == "--replay":
            replay = argv[i + 1]
            i += 2
        else:
            i += 1
    if tier not in ("quick", "thorough"):
        tier = "quick"
    ck = Checker(pid, tier)
    try:
        mod = importlib.import_module(f"sa.rules.{pid}")
    except ImportError as e:
        print(f"ANALYSIS-ERROR property={pid} no rule pack: {e}")
        return 2
    try:
        ix = Index()
        explanation = mod.run(ck, ix, tier)
        if tier == "thorough" and hasattr(mod, "thorough"):
            explanation += " " + (mod.thorough(ck, ix) or "")
    except AnalysisError as e:
        return ck.finish(getattr(mod, "EXPLANATION", ""), error=str(e))
    except Exception as e:  # internal error: never a violation
        tb = traceback.format_exc()
        sys.stderr.write(tb)
        return ck.finish(getattr(mod, "EXPLANATION", ""), error=f"internal error {type(e).__name__}: {e}")
    code = ck.finish(explanation)
    if replay:
        try:
            want = json.load(open(replay))
            hit = [v for v in ck.violations if v["rule"] == want.get("rule") and v["key"] == want.get("key")]
            print(f"replay: violation {want.get('rule')}|{want.get('key')} {'REPRODUCED' if hit else 'not present on this tree'}")
        except Exception as e:
            print(f"replay: cannot read {replay}: {e}")
    return code


if __name__ == "__main__":
    sys.exit(main(sys.argv[1:]))
