"""Driver: /verif/check <ID> [--tier quick|thorough] [--replay <path>]"""
import importlib
import json
import os
import sys
import traceback

sys.path.insert(0, os.path.dirname(os.path.dirname(os.path.abspath(__file__))))

from sa.index import AnalysisError, Index  # noqa: E402
from sa.report import Checker  # noqa: E402


def _selftest(ck, pid):
    """Thorough tier: mutate scratch copies of /repo/pint and confirm the rules fire (and
    stay silent on behaviour-preserving edits). Recorded in evidence; never changes the verdict."""
    import subprocess
    import tempfile
    here = os.path.dirname(os.path.dirname(os.path.abspath(__file__)))
    runner = os.path.join(here, "selftest", "run.py")
    if not os.path.exists(runner):
        return
    fd, tmp = tempfile.mkstemp(prefix="selftest-", suffix=".json")
    os.close(fd)
    try:
        r = subprocess.run([sys.executable, "-B", runner, "--only", pid, "--json", tmp],
                           capture_output=True, text=True, timeout=3000)
        try:
            res = json.load(open(tmp))
        except Exception:
            res = []
        summary = {"mutants": len(res)}
        for x in res:
            summary[x["status"]] = summary.get(x["status"], 0) + 1
        ck.extra["selftest"] = {
            "summary": summary,
            "results": [{"id": x["id"], "kind": x.get("kind", "break"), "status": x["status"], "expect": x.get("expect", "")} for x in res],
            "explanation": "each mutant is a one-site edit of a scratch copy of /repo/pint; 'break' mutants must make the check exit 1 naming the expected rule instance, 'benign' mutants (behaviour-preserving refactors) must leave it silent",
        }
        print(f"[{pid}] selftest: {summary}")
    except Exception as e:  # never affects the verdict
        ck.extra["selftest"] = {"error": str(e)}
    finally:
        try:
            os.unlink(tmp)
        except OSError:
            pass


def _seeded(ck, pid):
    """Thorough tier: every stored seeded change of this property (/verif/seeded/<pid>-*/patch.diff, written by
    independent sub-agents, each confirmed to break the property while the test-suite passes) is applied to a scratch
    copy of /repo/pint and the check is run on the copy: it must exit 1.  Recorded in evidence; never changes the verdict."""
    import shutil
    import subprocess
    import tempfile
    here = os.path.dirname(os.path.dirname(os.path.abspath(__file__)))
    root = os.path.join(here, "seeded")
    repo = os.environ.get("PINT_REPO", "/repo")
    out = []
    if not os.path.isdir(root):
        return
    for name in sorted(os.listdir(root)):
        if not name.startswith(pid + "-"):
            continue
        pf = os.path.join(root, name, "patch.diff")
        if not os.path.exists(pf):
            continue
        tmp = tempfile.mkdtemp(prefix="seeded-")
        try:
            shutil.copytree(os.path.join(repo, "pint"), os.path.join(tmp, "pint"), ignore=shutil.ignore_patterns("testsuite", "__pycache__"))
            r = subprocess.run(["patch", "-p1", "-s", "-f", "-d", tmp, "-i", pf], capture_output=True, text=True)
            if r.returncode != 0:
                out.append({"seed": name, "status": "patch-does-not-apply"})
                continue
            env = dict(os.environ, PINT_REPO=tmp, VERIF_EVIDENCE_DIR=os.path.join(tmp, "ev"))
            rr = subprocess.run([os.path.join(here, "check"), pid], capture_output=True, text=True, env=env)
            first = next((l.strip() for l in rr.stdout.splitlines() if l.startswith("  pint")), "")
            out.append({"seed": name, "status": "reported" if rr.returncode == 1 else ("analysis-error" if rr.returncode == 2 else "NOT-REPORTED"), "report": first[:240]})
        except Exception as e:  # never affects the verdict
            out.append({"seed": name, "status": "error", "why": str(e)})
        finally:
            shutil.rmtree(tmp, ignore_errors=True)
    summary = {}
    for x in out:
        summary[x["status"]] = summary.get(x["status"], 0) + 1
    ck.extra["seeded_changes"] = {"summary": summary, "results": out,
                                  "explanation": "changes written by independent sub-agents that break this property while compiling and passing the test-suite (see seeded/<id>/meta.json); applied to scratch copies only"}
    print(f"[{pid}] seeded changes: {summary}")


def _benign(ck, pid):
    """Thorough tier: the stored behaviour-preserving refactorings (/verif/benign/*/patch.diff, written by independent
    sub-agents, transcripts identical before/after) are applied to scratch copies of /repo/pint and this property's check
    must stay silent (exit 0) on every one of them.  Recorded in evidence; never changes the verdict."""
    import shutil
    import subprocess
    import tempfile
    from concurrent.futures import ThreadPoolExecutor
    here = os.path.dirname(os.path.dirname(os.path.abspath(__file__)))
    root = os.path.join(here, "benign")
    repo = os.environ.get("PINT_REPO", "/repo")
    if not os.path.isdir(root):
        return

    def one(name):
        pf = os.path.join(root, name, "patch.diff")
        tmp = tempfile.mkdtemp(prefix="benign-")
        try:
            shutil.copytree(os.path.join(repo, "pint"), os.path.join(tmp, "pint"), ignore=shutil.ignore_patterns("testsuite", "__pycache__"))
            if subprocess.run(["patch", "-p1", "-s", "-f", "-d", tmp, "-i", pf], capture_output=True).returncode != 0:
                return {"refactoring": name, "status": "patch-does-not-apply"}
            env = dict(os.environ, PINT_REPO=tmp, VERIF_EVIDENCE_DIR=os.path.join(tmp, "ev"))
            rr = subprocess.run([os.path.join(here, "check"), pid], capture_output=True, text=True, env=env)
            first = next((l.strip() for l in rr.stdout.splitlines() if l.startswith("  pint") or "ANALYSIS-ERROR" in l), "")
            return {"refactoring": name, "status": {0: "silent", 1: "FALSE-ALARM", 2: "inapplicable"}.get(rr.returncode, "error"), "report": first[:200]}
        except Exception as e:
            return {"refactoring": name, "status": "error", "why": str(e)}
        finally:
            shutil.rmtree(tmp, ignore_errors=True)
    names = sorted(n for n in os.listdir(root) if os.path.exists(os.path.join(root, n, "patch.diff")))
    with ThreadPoolExecutor(max_workers=8) as ex:
        out = list(ex.map(one, names))
    summary = {}
    for x in out:
        summary[x["status"]] = summary.get(x["status"], 0) + 1
    ck.extra["benign_refactorings"] = {"summary": summary, "not_silent": [x for x in out if x["status"] != "silent"],
                                       "explanation": "behaviour-preserving refactorings of the anchored functions written by independent sub-agents (see benign/<id>/meta.json); the check must not alarm on any of them"}
    print(f"[{pid}] benign refactorings: {summary}")


def _metamorph(ck, pid):
    """Thorough tier: the mechanical behaviour-preserving rewrites of tools/metamorph.py (layout, rename every local,
    flip every if/else, else-after-return both ways, hoist every return value) are applied to scratch copies of the
    whole package and this property's check must stay silent on each.  Recorded in evidence; never changes the
    verdict."""
    import importlib.util
    import shutil
    import subprocess
    import tempfile
    from concurrent.futures import ThreadPoolExecutor
    here = os.path.dirname(os.path.dirname(os.path.abspath(__file__)))
    spec = importlib.util.spec_from_file_location("metamorph", os.path.join(here, "tools", "metamorph.py"))
    mm = importlib.util.module_from_spec(spec)
    spec.loader.exec_module(mm)
    mm.REPO = os.environ.get("PINT_REPO", "/repo")

    def one(tid):
        tmp = tempfile.mkdtemp(prefix=f"meta-{tid}-")
        try:
            n = mm.build_variant(tid, tmp)
            env = dict(os.environ, PINT_REPO=tmp, VERIF_EVIDENCE_DIR=os.path.join(tmp, "ev"))
            rr = subprocess.run([os.path.join(here, "check"), pid], capture_output=True, text=True, env=env)
            reports = [l.strip()[:200] for l in rr.stdout.splitlines() if l.startswith("  pint") or "ANALYSIS-ERROR" in l]
            return {"transformation": f"{tid} {mm.TRANSFORMS[tid][0]}", "rewrites": n, "status": {0: "silent", 1: "FALSE-ALARM", 2: "inapplicable"}.get(rr.returncode, "error"), "reports": reports[:5]}
        except Exception as e:
            return {"transformation": tid, "status": "error", "why": str(e)}
        finally:
            shutil.rmtree(tmp, ignore_errors=True)
    with ThreadPoolExecutor(max_workers=6) as ex:
        out = list(ex.map(one, list(mm.TRANSFORMS)))
    summary = {}
    for x in out:
        summary[x["status"]] = summary.get(x["status"], 0) + 1
    ck.extra["mechanical_rewrites"] = {"summary": summary, "variants": out,
                                       "explanation": "whole-package behaviour-preserving rewrites (tools/metamorph.py); the check must not alarm on any of them"}
    print(f"[{pid}] mechanical rewrites: {summary}")


def main(argv):
    if not argv:
        print("usage: check <ID> [--tier quick|thorough] [--replay path]")
        return 2
    pid = argv[0]
    tier = os.environ.get("VERIF_TIER", "quick")
    replay = None
    i = 1
    while i < len(argv):
        if argv[i] == "--tier":
            tier = argv[i + 1]
            i += 2
        elif argv[i] == "--replay":
            replay = argv[i + 1]
            i += 2
        else:
            i += 1
    if tier not in ("quick", "thorough"):
        tier = "quick"
    ck = Checker(pid, tier)
    try:
        mod = importlib.import_module(f"sa.rules.{pid}")
    except ImportError as e:
        print(f"ANALYSIS-ERROR property={pid} no rule pack: {e}")
        return 2
    try:
        ix = Index()
        explanation = mod.run(ck, ix, tier)
        if tier == "thorough" and hasattr(mod, "thorough"):
            explanation += " " + (mod.thorough(ck, ix) or "")
    except AnalysisError as e:
        return ck.finish(getattr(mod, "EXPLANATION", ""), error=str(e))
    except Exception as e:  # internal error: never a violation
        tb = traceback.format_exc()
        sys.stderr.write(tb)
        return ck.finish(getattr(mod, "EXPLANATION", ""), error=f"internal error {type(e).__name__}: {e}")
    if tier == "thorough":
        _selftest(ck, pid)
        _seeded(ck, pid)
        _benign(ck, pid)
        _metamorph(ck, pid)
    code = ck.finish(explanation)
    if replay:
        try:
            want = json.load(open(replay))
            hit = [v for v in ck.violations if v["rule"] == want.get("rule") and v["key"] == want.get("key")]
            print(f"replay: violation {want.get('rule')}|{want.get('key')} {'REPRODUCED' if hit else 'not present on this tree'}")
        except Exception as e:
            print(f"replay: cannot read {replay}: {e}")
    return code


if __name__ == "__main__":
    try:
        rc = main(sys.argv[1:])
        sys.stdout.flush()
    except BrokenPipeError:  # reader of our stdout went away: the verdict is in the evidence file
        os.dup2(os.open(os.devnull, os.O_WRONLY), sys.stdout.fileno())
        rc = 2
    sys.exit(rc)
