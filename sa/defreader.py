"""E7: an independent reader of pint's definition files (default_en.txt, constants_en.txt).

Shares no code with pint.  Reads statements, resolves names as documented (exact name /
symbol / alias, else prefix + unit + optional plural s) and reduces every entry to an exact
rational factor over the base units declared in the file.  Decimal literals are taken as the
exact rationals they denote (so `π` is the 50-digit literal of constants_en.txt); only
non-integer powers leave exact arithmetic (60-digit Decimal, flagged inexact).
"""
from __future__ import annotations

import os
import re
from decimal import Decimal, getcontext
from fractions import Fraction

from .index import AnalysisError

getcontext().prec = 70


class DefError(AnalysisError):
    pass


class Value:
    __slots__ = ("f", "dims", "exact")

    def __init__(self, f, dims=None, exact=True):
        self.f = f
        self.dims = {k: v for k, v in (dims or {}).items() if v != 0}
        self.exact = exact

    def mul(self, o):
        d = dict(self.dims)
        for k, v in o.dims.items():
            d[k] = d.get(k, 0) + v
        return Value(self.f * o.f, d, self.exact and o.exact)

    def div(self, o):
        d = dict(self.dims)
        for k, v in o.dims.items():
            d[k] = d.get(k, 0) - v
        return Value(self.f / o.f, d, self.exact and o.exact)

    def pow(self, e: Fraction):
        d = {k: v * e for k, v in self.dims.items()}
        if e.denominator == 1:
            return Value(self.f ** int(e), d, self.exact)
        # non-integer power: 60-digit decimal arithmetic
        if self.f < 0:
            raise DefError("fractional power of a negative factor")
        x = (Decimal(self.f.numerator) / Decimal(self.f.denominator))
        r = x.ln() * (Decimal(e.numerator) / Decimal(e.denominator))
        y = r.exp()
        # exact if y**den == x**num happens to be rational with small terms
        cand = Fraction(y).limit_denominator(10 ** 12)
        if cand ** e.denominator == self.f ** e.numerator:
            return Value(cand, d, self.exact)
        return Value(Fraction(y), d, False)


TOKEN = re.compile(r"\s*(?:(\d+\.?\d*(?:[eE][+-]?\d+)?|\.\d+(?:[eE][+-]?\d+)?)|(\*\*|\^|[*/()+\-])|(\[[^\]]*\]|[^\W\d][\w]*))", re.UNICODE)


def tokenize(s):
    pos, out = 0, []
    s = s.strip()
    while pos < len(s):
        m = TOKEN.match(s, pos)
        if not m or m.end() == pos:
            raise DefError(f"cannot tokenize {s!r} at {pos}")
        if m.group(1) is not None:
            out.append(("num", m.group(1)))
        elif m.group(2) is not None:
            out.append(("op", "**" if m.group(2) == "^" else m.group(2)))
        else:
            out.append(("name", m.group(3)))
        pos = m.end()
    return out


class Parser:
    """expr := term (('+'|'-') term)* ; term := factor (('*'|'/'|juxtaposition) factor)* ;
    factor := ('+'|'-') factor | atom ('**' factor)? ; atom := num | name | '(' expr ')'"""

    def __init__(self, toks, resolve):
        self.t = toks
        self.i = 0
        self.resolve = resolve

    def peek(self):
        return self.t[self.i] if self.i < len(self.t) else (None, None)

    def eat(self):
        tok = self.t[self.i]
        self.i += 1
        return tok

    def expr(self):
        v = self.term()
        while self.peek() == ("op", "+") or self.peek() == ("op", "-"):
            op = self.eat()[1]
            w = self.term()
            if v.dims != w.dims:
                raise DefError("adding values of different dimension")
            v = Value(v.f + w.f if op == "+" else v.f - w.f, v.dims, v.exact and w.exact)
        return v

    def term(self):
        v = self.factor()
        while True:
            k, x = self.peek()
            if (k, x) == ("op", "*"):
                self.eat()
                v = v.mul(self.factor())
            elif (k, x) == ("op", "/"):
                self.eat()
                v = v.div(self.factor())
            elif k in ("num", "name") or (k, x) == ("op", "("):
                v = v.mul(self.factor())  # juxtaposition
            else:
                return v

    def factor(self):
        k, x = self.peek()
        if (k, x) in (("op", "+"), ("op", "-")):
            self.eat()
            v = self.factor()
            return v if x == "+" else Value(-v.f, v.dims, v.exact)
        v = self.atom()
        if self.peek() == ("op", "**"):
            self.eat()
            e = self.factor()
            if e.dims:
                raise DefError("exponent with units")
            v = v.pow(e.f)
        return v

    def atom(self):
        k, x = self.eat()
        if k == "num":
            return Value(Fraction(Decimal(x)))
        if k == "name":
            return self.resolve(x)
        if (k, x) == ("op", "("):
            v = self.expr()
            if self.eat() != ("op", ")"):
                raise DefError("missing )")
            return v
        raise DefError(f"unexpected token {x!r}")


class Definitions:
    def __init__(self, root_file):
        self.units = {}      # canonical name -> record
        self.spelling = {}   # any spelling -> canonical name
        self.prefixes = {}   # canonical prefix name -> record
        self.prefix_spelling = {}
        self.dimensions = {}
        self.groups = {}
        self.systems = {}
        self.contexts = []
        self.duplicates = []
        self.lines_read = 0
        self._cache = {}
        self._stack = []
        self._load(root_file)

    # ------------------------------------------------------------ reading
    def _load(self, path):
        base = os.path.dirname(path)
        try:
            lines = open(path, encoding="utf-8").read().splitlines()
        except OSError as e:
            raise AnalysisError(f"cannot read definition file {path}: {e}")
        block = None
        for raw in lines:
            self.lines_read += 1
            line = raw.split("#", 1)[0].rstrip() if not raw.lstrip().startswith("#") else ""
            if not line.strip():
                continue
            s = line.strip()
            if s.startswith("@import"):
                self._load(os.path.join(base, s[len("@import"):].strip()))
                continue
            if s == "@end":
                block = None
                continue
            if s.startswith("@defaults"):
                block = ("defaults", None)
                continue
            if s.startswith("@group"):
                m = re.match(r"@group\s+(\w+)(?:\s+using\s+(.*))?$", s)
                if not m:
                    raise DefError(f"bad group header {s!r}")
                self.groups[m.group(1)] = {"units": [], "using": [x.strip() for x in (m.group(2) or "").split(",") if x.strip()]}
                block = ("group", m.group(1))
                continue
            if s.startswith("@system"):
                m = re.match(r"@system\s+(\w+)(?:\s+using\s+(.*))?$", s)
                self.systems[m.group(1)] = {"rules": [], "using": [x.strip() for x in (m.group(2) or "").split(",") if x.strip()]}
                block = ("system", m.group(1))
                continue
            if s.startswith("@context"):
                self.contexts.append(s)
                block = ("context", s)
                continue
            if s.startswith("@alias"):
                parts = [p.strip() for p in s[len("@alias"):].split("=")]
                tgt = self.spelling.get(parts[0])
                if tgt is None:
                    raise DefError(f"@alias of unknown unit {parts[0]}")
                for a in parts[1:]:
                    self._spell(a, tgt)
                continue
            if block and block[0] in ("defaults", "context"):
                continue
            if block and block[0] == "system":
                self.systems[block[1]]["rules"].append(s)
                continue
            self._statement(s, block[1] if block and block[0] == "group" else None)

    def _spell(self, sp, canon, table=None):
        table = self.spelling if table is None else table
        if sp in table and table[sp] != canon:
            self.duplicates.append((sp, table[sp], canon))
        table[sp] = canon

    def _statement(self, s, group):
        parts = [p.strip() for p in s.split("=")]
        name = parts[0]
        if name.startswith("["):
            self.dimensions[name] = parts[1] if len(parts) > 1 else None
            return
        if len(parts) < 2:
            raise DefError(f"statement without '=': {s!r}")
        body = parts[1]
        expr, _, mods = body.partition(";")
        modifiers = {}
        for m in mods.split(";"):
            if m.strip():
                k, _, v = m.partition(":")
                modifiers[k.strip()] = v.strip()
        symbol = parts[2] if len(parts) > 2 and parts[2] != "_" else None
        aliases = [a for a in parts[3:] if a]
        if name.endswith("-"):
            pname = name[:-1]
            rec = {"name": pname, "expr": expr.strip(), "symbol": symbol[:-1] if symbol and symbol.endswith("-") else symbol,
                   "aliases": [a[:-1] if a.endswith("-") else a for a in aliases]}
            self.prefixes[pname] = rec
            self._spell(pname, pname, self.prefix_spelling)
            if rec["symbol"]:
                self._spell(rec["symbol"], pname, self.prefix_spelling)
            for a in rec["aliases"]:
                self._spell(a, pname, self.prefix_spelling)
            return
        rec = {"name": name, "expr": expr.strip(), "modifiers": modifiers, "symbol": symbol, "aliases": aliases, "group": group}
        if name in self.units:
            self.duplicates.append((name, name, name))
        self.units[name] = rec
        self._spell(name, name)
        if symbol:
            self._spell(symbol, name)
        for a in aliases:
            self._spell(a, name)
        if group:
            self.groups[group]["units"].append(name)

    # ------------------------------------------------------------ resolution
    def canonical(self, spelling):
        """(prefix canonical name | '', unit canonical name) for a spelling, as documented."""
        if spelling in self.spelling:
            return "", self.spelling[spelling]
        cands = []
        for suffix in ("", "s"):
            if suffix and not spelling.endswith(suffix):
                continue
            stem = spelling[: len(spelling) - len(suffix)] if suffix else spelling
            for psp, pcanon in self.prefix_spelling.items():
                if stem.startswith(psp) and len(stem) > len(psp):
                    rest = stem[len(psp):]
                    if suffix and len(rest) == 1:
                        continue
                    if rest in self.spelling:
                        cands.append((pcanon, self.spelling[rest]))
            if not suffix and not cands:
                pass
        if suffix_free := [c for c in cands]:
            uniq = []
            for c in suffix_free:
                if c not in uniq:
                    uniq.append(c)
            return uniq[0]
        if spelling.endswith("s") and spelling[:-1] in self.spelling and len(spelling) > 2:
            return "", self.spelling[spelling[:-1]]
        raise DefError(f"unresolved name {spelling!r}")

    def resolve(self, spelling):
        if spelling.startswith("["):
            raise DefError("dimension used as a value")
        pfx, unit = self.canonical(spelling)
        v = self.value_of(unit)
        if pfx:
            v = Value(v.f * self.prefix_value(pfx), v.dims, v.exact)
        return v

    def prefix_value(self, pname):
        rec = self.prefixes[pname]
        v = Parser(tokenize(rec["expr"]), self.resolve).expr()
        if v.dims:
            raise DefError(f"prefix {pname} has units")
        return v.f

    def value_of(self, name):
        """Value (scale to root units) of a canonical unit; offsets/log modifiers are kept separately."""
        if name in self._cache:
            return self._cache[name]
        if name in self._stack:
            raise DefError(f"cyclic definition: {' -> '.join(self._stack + [name])}")
        rec = self.units[name]
        self._stack.append(name)
        try:
            expr = rec["expr"]
            if expr.startswith("[") and "]" in expr and re.fullmatch(r"\[[^\]]*\]", expr):
                v = Value(Fraction(1), {name: Fraction(1)})
                rec["base_dimension"] = expr
            else:
                v = Parser(tokenize(expr), self.resolve)
                p = v
                v = p.expr()
                if p.i != len(p.t):
                    raise DefError(f"trailing tokens in {expr!r}")
        finally:
            self._stack.pop()
        self._cache[name] = v
        return v

    def modifier_number(self, name, key):
        rec = self.units[name]
        if key not in rec["modifiers"]:
            return None
        v = Parser(tokenize(rec["modifiers"][key]), self.resolve).expr()
        if v.dims:
            raise DefError(f"modifier {key} of {name} has units")
        return v.f

    def dimensionality(self, name):
        """Exponents over base dimension names, derived from base-unit exponents."""
        v = self.value_of(name)
        out = {}
        for u, e in v.dims.items():
            d = self.units[u].get("base_dimension")
            if d is None:
                self.value_of(u)
                d = self.units[u].get("base_dimension")
            if d and d != "[]":
                out[d] = out.get(d, 0) + e
        return {k: v for k, v in out.items() if v != 0}


def load_default(repo):
    return Definitions(os.path.join(repo, "pint", "default_en.txt"))
