"""E1/E2: source index, import resolution, class hierarchy (C3 MRO), call resolution.

Everything is computed from the *text* of /repo/pint (non-test modules) with the
standard-library ``ast`` module.  Nothing under /repo is imported or executed.
"""
from __future__ import annotations

import ast
import os
from dataclasses import dataclass, field
from typing import Iterable, Optional


class AnalysisError(Exception):
    """An anchor vanished / a construct is outside the modelled fragment (exit 2)."""


REPO = os.environ.get("PINT_REPO", "/repo")


@dataclass
class FuncInfo:
    name: str
    qualname: str  # module::Class.func or module::func
    module: "Module"
    node: ast.AST  # FunctionDef / Lambda
    cls: Optional["ClassInfo"] = None
    decorators: list = field(default_factory=list)
    parent: Optional["FuncInfo"] = None  # lexically enclosing function

    @property
    def lineno(self):
        return getattr(self.node, "lineno", 0)

    def loc(self, node=None):
        n = node if node is not None else self.node
        return f"{self.module.relpath}:{getattr(n, 'lineno', self.lineno)}"

    def __hash__(self):
        return id(self)

    def __eq__(self, o):
        return self is o

    def __repr__(self):
        return f"<Func {self.qualname}>"


@dataclass
class ClassInfo:
    name: str
    module: "Module"
    node: ast.ClassDef
    base_exprs: list = field(default_factory=list)
    methods: dict = field(default_factory=dict)  # name -> FuncInfo
    attrs: dict = field(default_factory=dict)  # name -> value ast node
    aliases: dict = field(default_factory=dict)  # name -> expr (e.g. __radd__ = __add__)

    @property
    def qualname(self):
        return f"{self.module.name}::{self.name}"

    def __hash__(self):
        return id(self)

    def __eq__(self, o):
        return self is o

    def __repr__(self):
        return f"<Class {self.qualname}>"


class Module:
    def __init__(self, name: str, path: str, relpath: str, is_pkg: bool):
        self.name = name
        self.path = path
        self.relpath = relpath
        self.is_pkg = is_pkg
        with open(path, encoding="utf-8") as fh:
            self.source = fh.read()
        self.tree = ast.parse(self.source, filename=path)
        self.normal_stats = {}
        self.classes: dict[str, ClassInfo] = {}
        self.functions: dict[str, FuncInfo] = {}
        self.assigns: dict[str, ast.AST] = {}  # last top-level assignment value
        self.assign_nodes: dict[str, list] = {}
        self.imports: dict[str, tuple] = {}  # local -> (module, name|None)
        self.all_functions: list[FuncInfo] = []  # incl. nested and methods
        for node in ast.walk(self.tree):
            for child in ast.iter_child_nodes(node):
                child._parent = node  # type: ignore[attr-defined]

    def __repr__(self):
        return f"<Module {self.name}>"


def _pkg_of(mod: Module) -> str:
    return mod.name if mod.is_pkg else mod.name.rpartition(".")[0]


class Index:
    """Whole-package fact base."""

    def __init__(self, repo: str = None, package: str = "pint"):
        self.repo = repo or REPO
        self.package = package
        self.modules: dict[str, Module] = {}
        self._mro_cache: dict = {}
        self._load()
        self.inlined_helpers: list = []
        from .normal import inline_single_callers, normalise, rule_vocabulary
        if os.environ.get("VERIF_N5", "1") == "1":
            # N5 first (on the raw trees), then N1-N4: rules see the normal form (sa/normal.py), never the raw spelling
            try:
                self.inlined_helpers = inline_single_callers(self.modules, max_sites=int(os.environ.get("VERIF_N5_SITES", "6")), known=rule_vocabulary())
            except Exception:       # look-through is an optimisation of the view, never a reason to fail: fall back to the raw trees
                self.inlined_helpers = []
                for m in self.modules.values():
                    m.tree = ast.parse(m.source, filename=m.path)
            touched = {h[1].split("::")[0] for h in self.inlined_helpers}
            for mn in touched:
                m = self.modules[mn]
                try:
                    ast.fix_missing_locations(m.tree)
                    compile(ast.unparse(m.tree), m.path, "exec")
                except Exception:
                    m.tree = ast.parse(m.source, filename=m.path)
                    self.inlined_helpers = [h for h in self.inlined_helpers if h[1].split("::")[0] != mn]
        self.expanded_constants: list = []
        if os.environ.get("VERIF_N6", "1") == "1":
            from .normal import expand_module_constants
            try:
                self.expanded_constants = expand_module_constants(self.modules, known=rule_vocabulary())
            except Exception:
                self.expanded_constants = []
        for m in self.modules.values():
            m.normal_stats = normalise(m.tree)
            for node in ast.walk(m.tree):
                for child in ast.iter_child_nodes(node):
                    child._parent = node  # type: ignore[attr-defined]
        for m in self.modules.values():
            self._scan_module(m)

    # ------------------------------------------------------------------ loading
    def _load(self):
        root = os.path.join(self.repo, self.package)
        if not os.path.isdir(root):
            raise AnalysisError(f"package directory {root} not found")
        for dirpath, dirnames, filenames in os.walk(root):
            dirnames[:] = sorted(d for d in dirnames if d not in ("testsuite", "__pycache__"))
            for fn in sorted(filenames):
                if not fn.endswith(".py"):
                    continue
                path = os.path.join(dirpath, fn)
                rel = os.path.relpath(path, self.repo)
                parts = rel[:-3].split(os.sep)
                is_pkg = parts[-1] == "__init__"
                if is_pkg:
                    parts = parts[:-1]
                name = ".".join(parts)
                try:
                    self.modules[name] = Module(name, path, rel, is_pkg)
                except SyntaxError as e:  # a tree that does not compile
                    raise AnalysisError(f"cannot parse {rel}: {e}")

    def _resolve_relative(self, mod: Module, level: int, target: Optional[str]) -> str:
        if level == 0:
            return target or ""
        base = _pkg_of(mod).split(".")
        if level > 1:
            base = base[: len(base) - (level - 1)]
        if target:
            base = base + target.split(".")
        return ".".join(base)

    def _scan_module(self, m: Module):
        def scan_imports(stmts):
            for st in stmts:
                if isinstance(st, ast.Import):
                    for a in st.names:
                        local = a.asname or a.name.split(".")[0]
                        m.imports[local] = (a.name if a.asname else a.name.split(".")[0], None)
                elif isinstance(st, ast.ImportFrom):
                    src = self._resolve_relative(m, st.level, st.module)
                    for a in st.names:
                        local = a.asname or a.name
                        m.imports[local] = (src, a.name)
                elif isinstance(st, (ast.If, ast.Try)):
                    for fld in ("body", "orelse", "finalbody"):
                        scan_imports(getattr(st, fld, []))
                    for h in getattr(st, "handlers", []):
                        scan_imports(h.body)

        scan_imports(m.tree.body)

        def scan_body(stmts, toplevel=True):
            for st in stmts:
                if isinstance(st, ast.ClassDef):
                    self._scan_class(m, st)
                elif isinstance(st, (ast.FunctionDef, ast.AsyncFunctionDef)):
                    fi = FuncInfo(st.name, f"{m.name}::{st.name}", m, st, None, st.decorator_list)
                    m.functions[st.name] = fi
                    self._register_func(m, fi)
                elif isinstance(st, ast.Assign):
                    for t in st.targets:
                        for nm in _target_names(t):
                            m.assigns[nm] = st.value
                            m.assign_nodes.setdefault(nm, []).append(st)
                elif isinstance(st, ast.AnnAssign) and isinstance(st.target, ast.Name) and st.value is not None:
                    m.assigns[st.target.id] = st.value
                    m.assign_nodes.setdefault(st.target.id, []).append(st)
                elif isinstance(st, (ast.If, ast.Try)):
                    for fld in ("body", "orelse", "finalbody"):
                        scan_body(getattr(st, fld, []), False)
                    for h in getattr(st, "handlers", []):
                        scan_body(h.body, False)

        scan_body(m.tree.body)

    def _register_func(self, m: Module, fi: FuncInfo):
        m.all_functions.append(fi)
        # nested functions / lambdas
        for node in _walk_skip_nested_defs(fi.node):
            if isinstance(node, (ast.FunctionDef, ast.AsyncFunctionDef)) and node is not fi.node:
                sub = FuncInfo(node.name, f"{fi.qualname}.<locals>.{node.name}", m, node, fi.cls, node.decorator_list, fi)
                self._register_func(m, sub)

    def _scan_class(self, m: Module, node: ast.ClassDef):
        ci = ClassInfo(node.name, m, node, list(node.bases))
        m.classes[node.name] = ci
        for st in node.body:
            if isinstance(st, (ast.FunctionDef, ast.AsyncFunctionDef)):
                fi = FuncInfo(st.name, f"{m.name}::{node.name}.{st.name}", m, st, ci, st.decorator_list)
                # property setters etc: keep the getter under the name, setter under name.setter
                key = st.name
                for d in st.decorator_list:
                    if isinstance(d, ast.Attribute) and d.attr in ("setter", "deleter"):
                        key = f"{st.name}.{d.attr}"
                if key in ci.methods and _is_overload(st):
                    continue
                if _is_overload(st):
                    continue
                ci.methods[key] = fi
                self._register_func(m, fi)
            elif isinstance(st, ast.Assign):
                for t in st.targets:
                    if isinstance(t, ast.Name):
                        if isinstance(st.value, ast.Lambda):
                            fi = FuncInfo(t.id, f"{m.name}::{node.name}.{t.id}", m, st.value, ci, [])
                            ci.methods[t.id] = fi
                            m.all_functions.append(fi)
                        elif isinstance(st.value, (ast.Name, ast.Attribute)):
                            ci.aliases[t.id] = st.value
                            ci.attrs[t.id] = st.value
                        else:
                            ci.attrs[t.id] = st.value
            elif isinstance(st, ast.AnnAssign) and isinstance(st.target, ast.Name):
                if st.value is not None:
                    ci.attrs[st.target.id] = st.value

    # ------------------------------------------------------------------ lookup
    def module(self, name: str) -> Module:
        if name not in self.modules:
            raise AnalysisError(f"module {name} not found in {self.repo}")
        return self.modules[name]

    def resolve(self, mod: Module, name: str, _depth=0):
        """Resolve a top-level name of `mod` to ClassInfo | FuncInfo | Module | ('assign', mod, node) | ('ext', str)."""
        if _depth > 12:
            return ("ext", name)
        if name in mod.classes:
            return mod.classes[name]
        if name in mod.functions:
            return mod.functions[name]
        if name in mod.imports:
            src, nm = mod.imports[name]
            if nm is None:
                if src in self.modules:
                    return self.modules[src]
                return ("ext", src)
            # from src import nm
            sub = f"{src}.{nm}" if src else nm
            if src in self.modules:
                target = self.modules[src]
                r = self.resolve(target, nm, _depth + 1)
                if not (isinstance(r, tuple) and r[0] == "ext"):
                    return r
                if sub in self.modules:
                    return self.modules[sub]
                return r
            if sub in self.modules:
                return self.modules[sub]
            return ("ext", f"{src}.{nm}")
        if name in mod.assigns:
            v = mod.assigns[name]
            if isinstance(v, ast.Name) and v.id != name:
                return self.resolve(mod, v.id, _depth + 1)
            if isinstance(v, ast.Attribute):
                r = self.resolve_expr(mod, v, _depth + 1)
                if r is not None:
                    return r
            return ("assign", mod, v)
        return ("ext", name)

    def resolve_expr(self, mod: Module, expr: ast.AST, _depth=0, cls: ClassInfo = None):
        """Resolve Name / dotted Attribute / Subscript(Generic[...]) to an index entity."""
        if isinstance(expr, ast.Subscript):
            return self.resolve_expr(mod, expr.value, _depth, cls)
        if isinstance(expr, ast.Name):
            return self.resolve(mod, expr.id, _depth)
        if isinstance(expr, ast.Attribute):
            base = self.resolve_expr(mod, expr.value, _depth, cls)
            if isinstance(base, Module):
                return self.resolve(base, expr.attr, _depth + 1)
            if isinstance(base, ClassInfo):
                # class attribute alias (e.g. facets.SystemRegistry.Quantity)
                for c in self.mro(base):
                    if expr.attr in c.methods:
                        return c.methods[expr.attr]
                    if expr.attr in c.attrs:
                        return self.resolve_expr(c.module, c.attrs[expr.attr], _depth + 1)
                return ("ext", f"{base.qualname}.{expr.attr}")
            if isinstance(base, tuple) and base[0] == "ext":
                return ("ext", f"{base[1]}.{expr.attr}")
        return None

    def cls(self, modname: str, clsname: str) -> ClassInfo:
        m = self.module(modname)
        if clsname not in m.classes:
            raise AnalysisError(f"class {clsname} not found in {m.relpath}")
        return m.classes[clsname]

    def func(self, modname: str, qual: str) -> FuncInfo:
        """qual = 'func' or 'Class.method' (use 'Class.prop.setter' for setters)."""
        m = self.module(modname)
        if "." in qual:
            cn, _, fn = qual.partition(".")
            if cn not in m.classes:
                raise AnalysisError(f"class {cn} not found in {m.relpath}")
            ci = m.classes[cn]
            if fn not in ci.methods:
                raise AnalysisError(f"method {cn}.{fn} not found in {m.relpath}")
            return ci.methods[fn]
        if qual not in m.functions:
            raise AnalysisError(f"function {qual} not found in {m.relpath}")
        return m.functions[qual]

    def has_func(self, modname, qual):
        try:
            self.func(modname, qual)
            return True
        except AnalysisError:
            return False

    # ------------------------------------------------------------------ hierarchy
    def bases(self, ci: ClassInfo) -> list:
        out = []
        for b in ci.base_exprs:
            r = self.resolve_expr(ci.module, b)
            if isinstance(r, ClassInfo):
                out.append(r)
        return out

    def mro(self, ci: ClassInfo) -> list:
        if ci in self._mro_cache:
            return self._mro_cache[ci]
        seqs = [self.mro(b)[:] for b in self.bases(ci)] + [self.bases(ci)[:]]
        res = [ci]
        seqs = [s for s in seqs if s]
        while seqs:
            for s in seqs:
                cand = s[0]
                if not any(cand in t[1:] for t in seqs):
                    break
            else:
                raise AnalysisError(f"inconsistent MRO for {ci.qualname}")
            res.append(cand)
            for s in seqs:
                if s and s[0] is cand:
                    del s[0]
            seqs = [s for s in seqs if s]
        self._mro_cache[ci] = res
        return res

    def find_method(self, ci: ClassInfo, name: str, after: ClassInfo = None, _seen=None):
        """First definition of `name` in the MRO of ci (after class `after` if given)."""
        mro = self.mro(ci)
        if after is not None:
            if after not in mro:
                return None
            mro = mro[mro.index(after) + 1:]
        for c in mro:
            if name in c.methods:
                return c.methods[name]
            if name in c.aliases:
                tgt = c.aliases[name]
                if isinstance(tgt, ast.Name):
                    if tgt.id in c.methods:
                        return c.methods[tgt.id]
                    r = self.resolve(c.module, tgt.id)
                    if isinstance(r, FuncInfo):
                        return r
                else:
                    r = self.resolve_expr(c.module, tgt)
                    if isinstance(r, FuncInfo):
                        return r
        return None

    def subclasses(self, ci: ClassInfo) -> list:
        out = []
        for m in self.modules.values():
            for c in m.classes.values():
                if c is not ci and ci in self.mro(c):
                    out.append(c)
        return out

    def all_functions(self) -> Iterable[FuncInfo]:
        for m in self.modules.values():
            yield from m.all_functions

    def all_classes(self) -> Iterable[ClassInfo]:
        for m in self.modules.values():
            yield from m.classes.values()


def _is_overload(fn: ast.FunctionDef) -> bool:
    for d in fn.decorator_list:
        if isinstance(d, ast.Name) and d.id == "overload":
            return True
        if isinstance(d, ast.Attribute) and d.attr == "overload":
            return True
    return False


def _target_names(t):
    if isinstance(t, ast.Name):
        yield t.id
    elif isinstance(t, (ast.Tuple, ast.List)):
        for e in t.elts:
            yield from _target_names(e)


def _walk_skip_nested_defs(fn_node):
    """Yield direct nested function defs (one level)."""
    body = fn_node.body if isinstance(fn_node.body, list) else [fn_node.body]
    stack = list(body)
    while stack:
        n = stack.pop()
        if isinstance(n, (ast.FunctionDef, ast.AsyncFunctionDef)):
            yield n
            continue
        if isinstance(n, (ast.ClassDef,)):
            continue
        stack.extend(ast.iter_child_nodes(n))


def walk_local(node):
    """ast.walk that does not descend into nested function/class definitions or lambdas."""
    body = getattr(node, "body", None)
    if isinstance(node, (ast.FunctionDef, ast.AsyncFunctionDef)):
        stack = [c for c in node.body if not isinstance(c, (ast.FunctionDef, ast.AsyncFunctionDef, ast.ClassDef))]
    elif isinstance(node, ast.Lambda):
        stack = [node.body]
    else:
        stack = [node]
    while stack:
        n = stack.pop()
        yield n
        for c in ast.iter_child_nodes(n):
            if isinstance(c, (ast.FunctionDef, ast.AsyncFunctionDef, ast.ClassDef, ast.Lambda)):
                continue
            stack.append(c)


# ---------------------------------------------------------------------- composites
COMPOSITES = {
    "registry": ("pint.registry", "UnitRegistry"),
    "quantity": ("pint.registry", "Quantity"),
    "unit": ("pint.registry", "Unit"),
}


class Resolver:
    """Resolves call sites inside pint to FuncInfo, using receiver conventions (E2)."""

    REGISTRY_PARAM_NAMES = {"registry", "ureg", "_REGISTRY"}

    def __init__(self, index: Index, registry_cls=None, quantity_cls=None, unit_cls=None):
        self.ix = index
        self.registry_cls = registry_cls or index.cls(*COMPOSITES["registry"])
        self.quantity_cls = quantity_cls or index.cls(*COMPOSITES["quantity"])
        self.unit_cls = unit_cls or index.cls(*COMPOSITES["unit"])
        self._plain_quantity = index.cls("pint.facets.plain.quantity", "PlainQuantity")
        self._plain_unit = index.cls("pint.facets.plain.unit", "PlainUnit")
        self._generic_registry = index.cls("pint.facets.plain.registry", "GenericPlainRegistry")

    def receiver_for(self, ci: Optional[ClassInfo]) -> Optional[ClassInfo]:
        """The composite class whose MRO a method of `ci` runs under."""
        if ci is None:
            return None
        for comp in (self.registry_cls, self.quantity_cls, self.unit_cls):
            if ci in self.ix.mro(comp):
                return comp
        return ci

    def resolve_call(self, fi: FuncInfo, call: ast.Call):
        """Return list of FuncInfo the call may dispatch to (empty if unknown/external)."""
        f = call.func
        ix = self.ix
        if isinstance(f, ast.Name):
            # nested function?
            p = fi
            while p is not None:
                for sub in fi.module.all_functions:
                    if sub.parent is p and sub.name == f.id:
                        return [sub]
                p = p.parent
            r = ix.resolve(fi.module, f.id)
            if isinstance(r, FuncInfo):
                return [r]
            if isinstance(r, ClassInfo):
                return self._ctor(r)
            return []
        if isinstance(f, ast.Attribute):
            recv = f.value
            # super().m()
            if isinstance(recv, ast.Call) and isinstance(recv.func, ast.Name) and recv.func.id == "super":
                if fi.cls is None:
                    return []
                comp = self.receiver_for(fi.cls)
                owner = fi.cls
                m = ix.find_method(comp, f.attr, after=owner)
                return [m] if m else []
            rc = self.expr_class(fi, recv)
            if rc is not None:
                m = ix.find_method(rc, f.attr)
                return [m] if m else []
            r = ix.resolve_expr(fi.module, f)
            if isinstance(r, FuncInfo):
                return [r]
            if isinstance(r, ClassInfo):
                return self._ctor(r)
        return []

    def _ctor(self, ci: ClassInfo):
        out = []
        for nm in ("__new__", "__init__", "__post_init__"):
            m = self.ix.find_method(ci, nm)
            if m:
                out.append(m)
        return out

    def expr_class(self, fi: FuncInfo, e: ast.AST) -> Optional[ClassInfo]:
        """Static receiver class of expression `e` in function fi, by pint's conventions."""
        if isinstance(e, ast.Name):
            if e.id in ("self", "cls") and fi.cls is not None:
                top = fi
                return self.receiver_for(fi.cls)
            if e.id in self.REGISTRY_PARAM_NAMES:
                return self.registry_cls
            if e.id in ("other",) and fi.cls is not None:
                # binary dunder operand after a registry check: same family
                rc = self.receiver_for(fi.cls)
                if rc in (self.quantity_cls,):
                    return rc
            return None
        if isinstance(e, ast.Attribute):
            if e.attr == "_REGISTRY":
                return self.registry_cls
            if e.attr == "__class__" and isinstance(e.value, ast.Name) and e.value.id == "self" and fi.cls is not None:
                return self.receiver_for(fi.cls)
        return None
