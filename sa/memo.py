"""G-MEMO rule family: key / guard / hit / invalidation rules over pint's memo sites.

Each rule_* function adds obligations to a Checker.  Rule instances are discovered from
the current source (functions are located by module + qualified name; constructs by AST
shape), never by line numbers or frozen text.
"""
from __future__ import annotations

import ast

from .flow import call_name, dotted, norm, writes_in
from .index import AnalysisError, walk_local
from .lib import (cfg_of, compare_parts, defs_of, edge_successors, find_memo_sites, live, names_in,
                  node_has, nodes_calling, nodes_with, reassigned_names, return_nodes, undominated,
                  witness)

PR = "pint.facets.plain.registry"
CR = "pint.facets.context.registry"
CO = "pint.facets.context.objects"
SR = "pint.facets.system.registry"
SO = "pint.facets.system.objects"
GO = "pint.facets.group.objects"
GR = "pint.facets.group.registry"


# ---------------------------------------------------------------- role-based helpers shared by the packs that use this file
def excluded_conjunctions(node, fn):
    """For every fact known where `node` executes: a list [(positive atom, truth)] whose *conjunction* is known NOT to
    hold there - whatever the spelling: `if a and b: ... else: <node>`, `if not a or not b: <node>`,
    `if a and b: continue` before <node>, `if not a: <node>` (a one-element list)."""
    from . import shape
    for at, tr in shape.facts_at(node, fn):
        if isinstance(at, ast.BoolOp) and isinstance(at.op, ast.And) and not tr:
            yield list(shape.conjuncts(at, "t"))
        elif isinstance(at, ast.BoolOp) and isinstance(at.op, ast.Or) and tr:
            yield list(shape.conjuncts(at, "f"))
        elif not isinstance(at, ast.BoolOp):
            yield [(at, not tr)]


def base_of(e: ast.AST) -> ast.AST:
    """the object an access path starts from: `a.b[c].d` -> `a`; `f(x).b` -> the call `f(x)`"""
    while isinstance(e, (ast.Attribute, ast.Subscript, ast.Starred)):
        e = e.value
    return e


def written_receivers(node: ast.AST) -> list:
    """the expressions whose object is modified by a write found by flow.writes_in (statement or mutator call):
    targets of assignments / deletions, receiver of a mutating method call"""
    if isinstance(node, ast.Assign):
        ts = list(node.targets)
    elif isinstance(node, (ast.AugAssign, ast.AnnAssign)):
        ts = [node.target]
    elif isinstance(node, ast.Delete):
        ts = list(node.targets)
    elif isinstance(node, ast.Call) and isinstance(node.func, ast.Attribute):
        return [node.func.value]
    else:
        return []
    out = []
    for t in ts:
        out += list(t.elts) if isinstance(t, (ast.Tuple, ast.List)) else [t]
    return [t for t in out if isinstance(t, (ast.Attribute, ast.Subscript))]


def enclosing(node, kinds, stop=None):
    """closest ancestor of `node` that is an instance of `kinds` (inside `stop`)"""
    cur = getattr(node, "_parent", None)
    while cur is not None and cur is not stop:
        if isinstance(cur, kinds):
            return cur
        cur = getattr(cur, "_parent", None)
    return None


def table_reads(fi, table_part: str) -> list:
    """Subscript loads `T[K]` in `fi` whose table T (local aliases expanded) mentions `table_part`"""
    defs = defs_of(fi)
    from .lib import resolve_alias
    return [n for n in walk_local(fi.node) if isinstance(n, ast.Subscript) and isinstance(n.ctx, ast.Load) and table_part in resolve_alias(defs, n.value)]


def alternatives(e: ast.AST) -> list:
    """the expressions a value may be: the branches of (nested) conditional expressions `a if c else b`, else `e` itself.
    The nodes returned are nodes of the tree, so shape.facts_at on a branch knows the condition of its IfExp."""
    if isinstance(e, ast.IfExp):
        return alternatives(e.body) + alternatives(e.orelse)
    return [e]


def hit_sites(fi, table_part: str) -> list:
    """Where a value read from the memo table is *served*: [(node, read)] with `read` a Subscript load `T[K]` of the table
    and `node` the place whose guard decides that the slot answers the request - the `return` that hands out the value
    when the read is first held in a local (`try: v = T[K] / except KeyError: ... / else: if ok: return v`), else the
    read itself."""
    defs = defs_of(fi)
    out = []
    for r in table_reads(fi, table_part):
        par = getattr(r, "_parent", None)
        served = []
        if isinstance(par, ast.Assign) and par.value is r and len(par.targets) == 1 and isinstance(par.targets[0], ast.Name) and defs.single(par.targets[0].id) is r:
            served = [x for x in walk_local(fi.node) if isinstance(x, ast.Return) and x.value is not None
                      and any(isinstance(v, ast.Name) and v.id == par.targets[0].id for v in alternatives(x.value))]
        out += [(x, r) for x in served] or [(r, r)]
    return out


def concat_parts(e: ast.AST):
    """(front, back) of a two-part list concatenation: `front + back` or `[*front, *back]`; None otherwise"""
    if isinstance(e, ast.BinOp) and isinstance(e.op, ast.Add):
        return e.left, e.right
    if isinstance(e, (ast.List, ast.Tuple)) and len(e.elts) == 2 and all(isinstance(x, ast.Starred) for x in e.elts):
        return e.elts[0].value, e.elts[1].value
    return None


def guard_facts(node, fn, skip=lambda at: False, about=None) -> set:
    """{(atom text, truth)} known where `node` executes (if/else in either polarity, guard clauses, and/or, nested or
    merged conditions); compound facts (`not (a and b)`) are kept as their text unless `about` is given.  A truthiness fact about a plain name
    is dropped when an equality on that name is also known (the equality says more)."""
    from . import shape
    facts = []
    for at, tr in shape.facts_at(node, fn):
        # a condition held in a temporary (`use_memo = a and b` ... `if use_memo:`) stands for its definition
        # (a parameter is the request itself, even when it is given a default value on the way: not resolved)
        r = shape.resolve(at, fn) if isinstance(at, ast.Name) and at.id not in {a_.arg for a_ in ast.walk(fn.args) if isinstance(a_, ast.arg)} else at
        facts += [(a2, t2) for a2, t2 in shape.conjuncts(r, "t" if tr else "f") if not skip(a2)]
    pinned = set()
    for at, tr in facts:
        if tr and isinstance(at, ast.Compare) and len(at.ops) == 1 and isinstance(at.ops[0], ast.Eq):
            pinned |= {x.id for x in (at.left, at.comparators[0]) if isinstance(x, ast.Name)}
    if about is not None:
        # only atomic facts that say something about the given names (e.g. the parameters that are not part of a memo
        # key); a compound fact such as "the earlier lookup `a and key in memo` failed" pins nothing
        facts = [(at, tr) for at, tr in facts if not isinstance(at, ast.BoolOp) and {x.id for x in ast.walk(at) if isinstance(x, ast.Name)} & set(about)]
    return {(norm(at), tr) for at, tr in facts if not (isinstance(at, ast.Name) and at.id in pinned)}


def _show(facts) -> list:
    return sorted((t if tr else f"not ({t})") for t, tr in facts)


def looked_through(ix, fi, skip=(), transform=None):
    """`fi` itself when it calls no private helper that hides statements from the rules; otherwise a FuncInfo look-alike
    whose node has those helpers inlined (shape.inline_helpers, or `transform(ix, fi)` when given).  Keeping the original
    node whenever nothing was inlined keeps the reports on the real source lines."""
    from .lib import _Inlined
    from . import shape
    fn = transform(ix, fi) if transform is not None else shape.inline_helpers(ix, fi, skip=skip)
    if ast.unparse(fn) == ast.unparse(fi.node):
        return fi
    return _Inlined(fi, fn)


def _cfg_nodes_of(cfg, a):
    return cfg.nodes_for_ast(a)


def _is_empty_container(v: ast.AST) -> bool:
    if isinstance(v, ast.Dict) and not v.keys:
        return True
    if isinstance(v, (ast.List, ast.Set, ast.Tuple)) and not v.elts:
        return True
    if isinstance(v, ast.Call) and call_name(v) in ("dict", "set", "list", "defaultdict", "frozenset", "RegistryCache") and not v.args:
        return True
    if isinstance(v, ast.Constant) and v.value is None:
        return True
    return False


def _reset_nodes(cfg, attr_path: str) -> list:
    """CFG nodes that reset `attr_path` (assign empty container/None, .clear())."""
    out = []
    for n in cfg.nodes:
        a = n.ast
        if n.kind != "stmt" or a is None:
            continue
        if isinstance(a, ast.Assign) and _is_empty_container(a.value) and any(dotted(t) == attr_path for t in a.targets):
            out.append(n.id)
        elif isinstance(a, ast.AnnAssign) and a.value is not None and _is_empty_container(a.value) and dotted(a.target) == attr_path:
            out.append(n.id)
        elif isinstance(a, ast.Expr) and isinstance(a.value, ast.Call) and call_name(a.value) == "clear" and dotted(a.value.func.value) == attr_path:
            out.append(n.id)
    return out


def after_nodes_must_pass(ck, fi, cfg, starts, gates, rule, key, ok_msg, fail_msg):
    """Every normal path from each start node to the normal exit passes a gate node."""
    for s in live(cfg, starts):
        if s in gates:
            ck.ok(rule, key, fi.loc(cfg.nodes[s].ast), ok_msg)
            continue
        p = cfg.path(s, [cfg.exit], avoid=set(gates), avoid_edges=())
        # ignore paths that only exist through exceptional edges
        if p is not None:
            p = _normal_path(cfg, s, gates)
        ck.check(p is None, rule, key, fi.loc(cfg.nodes[s].ast), ok_msg,
                 fail_msg + f" (after `{cfg.nodes[s].text()}`)", witness(cfg, p))


def _normal_path(cfg, start, gates):
    """Path start->exit using only non-exceptional edges, avoiding gates."""
    from collections import deque
    gates = set(gates)
    prev = {start: None}
    dq = deque([start])
    while dq:
        u = dq.popleft()
        if u == cfg.exit:
            out = []
            while u is not None:
                out.append(u)
                u = prev[u]
            return out[::-1]
        for (v, lab) in cfg.succ[u]:
            if lab == "exc" or v in prev or v in gates:
                continue
            prev[v] = u
            dq.append(v)
    return None


# ------------------------------------------------------------------ root units / conversion factor
def rule_root_units_memo(ck, ix):
    fi = ix.func(PR, "GenericPlainRegistry._get_root_units")
    ck.analysed(fi)
    sites = [s for s in find_memo_sites(fi) if "root_units" in s.table]
    ck.floor("G-MEMO-KEY", len(sites), 1, "root_units memo lookup in _get_root_units")
    defs = defs_of(fi)
    for s in sites:
        ck.floor("G-MEMO-KEY", len(s.stores), 1, "root_units memo store")
        for (k, v, st) in s.stores:
            re = reassigned_names(fi, names_in(k))
            ck.check(norm(k) == norm(s.lookup_key) and not re, "G-MEMO-KEY", "root_units|store-key==lookup-key", fi.loc(st),
                     f"stored under the looked-up key `{norm(k)}`",
                     f"stored under `{norm(k)}` but looked up with `{norm(s.lookup_key)}`" + (f"; {re} reassigned" if re else ""))
            # what is stored is what is returned on the miss path
            rets = [r for r in walk_local(fi.node) if isinstance(r, ast.Return) and r.value is not None and r.lineno > st.lineno]
            for r in rets:
                ck.check(norm(r.value) == norm(v), "G-MEMO-HIT", "root_units|miss-returns-what-it-stores", fi.loc(r),
                         "the miss path returns exactly what it stored",
                         f"miss path stores `{norm(v)}` but returns `{norm(r.value)}`")
        rec = [c for c in walk_local(fi.node) if isinstance(c, ast.Call) and call_name(c) == "_get_root_units_recurse"]
        ck.floor("G-MEMO-KEY", len(rec), 1, "_get_root_units_recurse call")
        for c in rec:
            ck.check(norm(c.args[0]) == norm(s.lookup_key) and norm(c.args[1]) == "1", "G-MEMO-KEY", "root_units|compute-from-key", fi.loc(c),
                     "expanded from the looked-up key with exponent 1",
                     f"`{norm(c)}` does not expand the looked-up key `{norm(s.lookup_key)}` with exponent 1")
    # accumulator starts at the multiplicative identity
    inits = [a for a in walk_local(fi.node) if isinstance(a, ast.Assign) and any(
        isinstance(t, ast.Subscript) and norm(t.slice) == "None" for t in a.targets)]
    for a in inits:
        ck.check(norm(a.value) == "1", "G-MEMO-KEY", "root_units|accumulator-starts-at-one", fi.loc(a),
                 "factor accumulator starts at 1", f"factor accumulator starts at `{norm(a.value)}`")


def rule_conversion_factor_memo(ck, ix):
    fi = ix.func(PR, "GenericPlainRegistry._get_conversion_factor")
    ck.analysed(fi)
    sites = [s for s in find_memo_sites(fi) if "conversion_factor" in s.table]
    ck.floor("G-MEMO-KEY", len(sites), 1, "conversion_factor memo lookup")
    defs = defs_of(fi)
    # every fill of the memo - `cache[k] = v`, `cache.setdefault(k, v)`, `cache.update(...)` - is the fill of the slot that
    # was looked up; a second slot filled "for free" (e.g. the reciprocal under the reversed key) holds a value that a
    # miss for that slot would not compute (1/f is not bit-identical to the factor computed from dst/src)
    from . import shape as _shcf
    cache_names = {nm for nm, ds in defs.defs.items() if any(v is not None and "conversion_factor" in norm(v) for v, k, st in ds)} | {"self._cache.conversion_factor"}
    for s in sites:
        lk0 = norm(_shcf.resolve(s.lookup_key, fi.node))
        for c in walk_local(fi.node):
            if isinstance(c, ast.Call) and isinstance(c.func, ast.Attribute) and c.func.attr in ("setdefault", "update", "__setitem__") and norm(c.func.value) in cache_names:
                k0 = norm(_shcf.resolve(c.args[0], fi.node)) if c.args and c.func.attr != "update" else "?"
                ck.check(k0 == lk0, "G-MEMO-FILL", "conversion_factor|only-the-looked-up-slot-is-filled", fi.loc(c), "the memo is filled only under the looked-up key",
                         f"`{norm(c)}` fills the slot `{k0}` while `{lk0}` was looked up: the value stored there is not what a miss for that slot computes (history-dependent answers)")
            if isinstance(c, ast.Assign):
                for t_ in c.targets:
                    if isinstance(t_, ast.Subscript) and norm(t_.value) in cache_names:
                        k0 = norm(_shcf.resolve(t_.slice, fi.node))
                        ck.check(k0 == lk0, "G-MEMO-FILL", "conversion_factor|only-the-looked-up-slot-is-filled", fi.loc(c), "the memo is filled only under the looked-up key",
                                 f"`{norm(c)}` fills the slot `{k0}` while `{lk0}` was looked up: the value stored there is not what a miss for that slot computes (history-dependent answers)")
    for s in sites:
        lk = defs.inline(s.lookup_key)
        if isinstance(lk, ast.Call) and call_name(lk) in ("hash", "id", "str", "repr", "len"):
            ck.fail("G-MEMO-KEY", "conversion_factor|key-is-the-unit-pair-itself", fi.loc(lk),
                    f"the factor memo is keyed by `{norm(lk)}`, a lossy projection of (src, dst): distinct unit pairs can share one slot (e.g. hash(-1) == hash(-2))")
            continue
        ck.floor("G-MEMO-KEY", len(s.stores), 1, "conversion_factor memo store")
        for (k, v, st) in s.stores:
            re = reassigned_names(fi, names_in(k))
            ck.check(norm(defs.inline(k)) == norm(lk) and not re, "G-MEMO-KEY", "conversion_factor|store-key==lookup-key", fi.loc(st),
                     f"stored under the looked-up key `{norm(k)}`",
                     f"factor stored under `{norm(k)}` but looked up with `{norm(lk)}`" + (f"; {re} reassigned" if re else ""))
            # orientation: key (a, b)  =>  factor = root_units(a / b)
            if isinstance(lk, ast.Tuple) and len(lk.elts) == 2:
                a, b = norm(lk.elts[0]), norm(lk.elts[1])
                vv = defs.inline(v)
                src_calls = [c for c in ast.walk(vv) if isinstance(c, ast.Call) and call_name(c) in ("_get_root_units", "get_root_units")]
                if not src_calls:
                    # value assigned through tuple unpacking:  factor, _ = self._get_root_units(src / dst)
                    for nm in names_in(v):
                        for (val, kind, stt) in defs.defs.get(nm, []):
                            if val is not None:
                                src_calls += [c for c in ast.walk(val) if isinstance(c, ast.Call) and call_name(c) in ("_get_root_units", "get_root_units")]
                            if kind.startswith("unpack") and kind != "unpack0":
                                ck.fail("G-MEMO-HIT", "conversion_factor|factor-is-first-component", fi.loc(stt),
                                        f"stored factor `{nm}` is component {kind[6:]} of the (factor, units) pair")
                ck.floor("G-MEMO-KEY", len(src_calls), 1, "factor computed from _get_root_units")
                for c in src_calls:
                    from . import shape as _shq
                    arg = _shq.unalias(c.args[0], fi.node) if c.args else None      # `ratio = src / dst` hoisted into a temporary
                    ok = isinstance(arg, ast.BinOp) and isinstance(arg.op, ast.Div) and norm(arg.left) == a and norm(arg.right) == b
                    ck.check(ok, "G-MEMO-KEY", "conversion_factor|factor-orientation-matches-key", fi.loc(c),
                             f"factor for key ({a}, {b}) computed from {a} / {b}",
                             f"factor cached under ({a}, {b}) is computed from `{norm(arg)}` (swapped or unrelated operands)")
            else:
                raise AnalysisError("conversion_factor memo key is not a 2-tuple")
            # a DimensionalityError must never be stored as a factor: handled by C01 gate


# ------------------------------------------------------------------ parse cache
def rule_parse_unit_memo(ck, ix):
    fi = ix.func(PR, "GenericPlainRegistry._parse_units_as_container")
    ck.analysed(fi)
    cfg, defs = cfg_of(fi), defs_of(fi)
    sites = [s for s in find_memo_sites(fi) if "parse_unit" in s.table]
    ck.floor("G-MEMO-GUARD", len(sites), 1, "parse_unit memo lookup in _parse_units_as_container")
    from . import shape as _shp
    for s in sites:
        # what is known where the memo is read (the `in` test of the slot itself aside), whatever the spelling of the test
        hits = hit_sites(fi, "parse_unit")
        reads = [site for site, _ in hits]
        ck.floor("G-MEMO-GUARD", len(reads), 1, "read of the parse_unit memo")
        for site, r in hits:
            rf = _shp.facts_at(site, fi.node)
            ck.check(any(tr and norm(at) == "as_delta" for at, tr in rf), "G-MEMO-GUARD", "parse_unit|read-requires-as_delta", fi.loc(r),
                     "cache is only read for as_delta=True", "cache is read although as_delta may be False (delta and non-delta readings share one slot)")
            ck.check(any(tr and isinstance(at, ast.Compare) and isinstance(at.ops[0], ast.In) and norm(at.left) == norm(r.slice) and norm(at.comparators[0]) == "self._units" for at, tr in rf), "G-MEMO-GUARD",
                     "parse_unit|read-requires-key-in-unit-table", fi.loc(r),
                     "cache hit requires the string to be a key of the unit table",
                     "cache hit no longer requires the string to be in the unit table (issue #1097 guard dropped)")
        ck.floor("G-MEMO-GUARD", len(s.stores), 1, "parse_unit memo store")
        for (k, v, st) in s.stores:
            ids = _cfg_nodes_of(cfg, st)
            safe = _shp.guard_edges(cfg, lambda a: norm(a) == "as_delta", want=True)
            okg = True
            for i in live(cfg, ids):
                # the store is only reachable over an edge on which `as_delta` holds
                okg = okg and _shp.reachable_without(cfg, [i], safe) is None
            ck.check(bool(safe) and okg, "G-MEMO-GUARD", "parse_unit|write-requires-as_delta", fi.loc(st),
                     "cache only written for as_delta=True", "cache is written when as_delta is False, but read assuming as_delta=True")
            # the slot is keyed by the string alone: what the two guards say about the *other* parameters (as_delta,
            # case_sensitive) must agree, or a slot filled for one kind of request answers another kind
            other_params = set(defs.params) - {"self", "cls"} - names_in(s.lookup_key)
            wf = guard_facts(st, fi.node, about=other_params)
            rf = None
            for r in reads:
                f_ = guard_facts(r, fi.node, about=other_params)
                rf = f_ if rf is None else (rf & f_)
            if bool(safe) and okg:
                ck.check(wf == rf, "G-MEMO-GUARD", "parse_unit|write-requires-as_delta", fi.loc(st),
                         f"written and read under the same conditions on the other parameters {_show(wf)}",
                         f"cache is written under {_show(wf)} but read under {_show(rf or set())}: a slot filled for one kind of request (as_delta / case sensitivity) is served to another")
            rets = [r for r in walk_local(fi.node) if isinstance(r, ast.Return) and r.value is not None and r.lineno > st.lineno]
            for r in rets:
                ck.check(norm(r.value) == norm(v), "G-MEMO-HIT", "parse_unit|miss-returns-what-it-stores", fi.loc(r),
                         "the miss path returns what it stored", f"miss path stores `{norm(v)}` but returns `{norm(r.value)}`")
    # invalidation by the adders (D13)
    fi = ix.func(PR, "GenericPlainRegistry._helper_single_adder")
    ck.analysed(fi)
    cfg = cfg_of(fi)
    stores = []
    for (p, kind, node) in writes_in(fi.node):
        if p == "target_dict" and kind == "item-store":
            stores += _cfg_nodes_of(cfg, node)
    ck.floor("G-MEMO-INV", len(stores), 1, "table store in _helper_single_adder")
    key_name = None
    for (p, kind, node) in writes_in(fi.node):
        if p == "target_dict" and kind == "item-store":
            for t in node.targets:
                if isinstance(t, ast.Subscript):
                    key_name = norm(t.slice)
    gates = nodes_with(cfg, lambda x: isinstance(x, ast.Call) and call_name(x) in ("pop", "clear") and "parse_unit" in norm(x.func)
                       and (call_name(x) == "clear" or (x.args and norm(x.args[0]) == key_name)))
    gates += nodes_with(cfg, lambda x: isinstance(x, ast.Delete) and "parse_unit" in norm(x))
    after_nodes_must_pass(ck, fi, cfg, stores, gates, "G-MEMO-INV",
                          "memo=Registry:_cache.parse_unit|dep=Registry:_units|writer=_helper_single_adder",
                          "storing a spelling drops its cached parse",
                          "a new unit spelling is stored without dropping the cached parse of that spelling")


# ------------------------------------------------------------------ dimensional_equivalents (FILL)
def rule_dimensional_equivalents(ck, ix):
    """Filled once in _build_cache; definitions added later must reach it."""
    fi = ix.func(PR, "GenericPlainRegistry._build_cache")
    ck.analysed(fi)
    from . import shape as _shd
    # calls on the listing itself or on one of its entries (possibly held in a local: `s = listing.setdefault(k, set())`)
    on_listing = lambda c: isinstance(c.func, ast.Attribute) and "dimensional_equivalents" in _shd.rnorm(c.func.value, fi.node)
    fills = [c for c in walk_local(fi.node) if isinstance(c, ast.Call) and call_name(c) in ("setdefault", "add") and on_listing(c)]
    ck.floor("G-MEMO-FILL", len(fills), 1, "dimensional_equivalents fill in _build_cache")
    # the set entry added is the canonical name of the unit
    adds = [c for c in fills if call_name(c) == "add" and c.args]
    ck.floor("G-MEMO-FILL", len(adds), 1, "entry added to a dimensional_equivalents set in _build_cache")
    for c in adds:
        ck.check(norm(c.args[0]).endswith(".name") and "self._units[" in norm(c.args[0]), "G-MEMO-FILL",
                 "dimensional_equivalents|entry-is-canonical-name", fi.loc(c),
                 "listing stores the canonical unit name", f"listing stores `{norm(c.args[0])}`, not the canonical name")
    # post-construction writers of the unit table: do they refresh the listing?
    writers = [ix.func(PR, "GenericPlainRegistry._add_unit"), ix.func(PR, "GenericPlainRegistry.define"),
               ix.func(PR, "GenericPlainRegistry._helper_adder"), ix.func(PR, "GenericPlainRegistry._helper_single_adder"),
               ix.func(PR, "GenericPlainRegistry._helper_dispatch_adder")]
    refresh = False
    for w in writers:
        ck.analysed(w)
        for c in walk_local(w.node):
            if isinstance(c, ast.Call) and (call_name(c) == "_build_cache" or "dimensional_equivalents" in norm(c)):
                refresh = True
        for n in walk_local(w.node):
            if isinstance(n, ast.Attribute) and n.attr == "dimensional_equivalents":
                refresh = True
    ck.check(refresh, "G-MEMO-FILL", "memo=Registry:_cache.dimensional_equivalents|dep=Registry:_units|writer=define",
             ix.func(PR, "GenericPlainRegistry.define").loc(),
             "definitions added after construction reach the compatible-unit listing",
             "define() after construction never reaches _cache.dimensional_equivalents (built once in _build_cache): get_compatible_units misses later definitions")


# ------------------------------------------------------------------ disk cache HIT
def rule_disk_cache_hit(ck, ix):
    fi = ix.func(PR, "GenericPlainRegistry._build_cache")
    ck.analysed(fi)
    cfg, defs = cfg_of(fi), defs_of(fi)
    loaded = None
    for nm, ds in defs.defs.items():
        for v, kind, st in ds:
            if v is not None and isinstance(v, ast.Call) and call_name(v) == "load" and kind in ("unpack0", "assign"):
                loaded = nm
    if loaded is None:
        raise AnalysisError("_build_cache: no value loaded from the disk cache found")
    tests = []
    for n in cfg.nodes:
        if n.kind == "test":
            cp = compare_parts(n.ast)
            if cp and isinstance(cp[1], ast.Name) and cp[1].id == loaded and norm(cp[2]) == "None":
                tests.append((n.id, "f" if cp[0] == "Is" else "t"))  # edge on which the value is NOT None (hit)
    ck.floor("G-MEMO-HIT", len(tests), 1, "test of the loaded disk cache for None")
    installs = [n.id for n in cfg.nodes if n.kind == "stmt" and isinstance(n.ast, ast.Assign)
                and any(dotted(t) == "self._cache" for t in n.ast.targets) and norm(n.ast.value) == loaded]
    for tid, hit_edge in tests:
        succ = edge_successors(cfg, tid, hit_edge)
        bad = None
        for s in succ:
            if s in installs:
                continue
            p = _normal_path(cfg, s, installs) if s != cfg.exit else [s]
            if p:
                bad = [tid] + p
        ck.check(bad is None, "G-MEMO-HIT", "disk_cache|loaded-cache-installed", fi.loc(cfg.nodes[tid].ast),
                 "a cache loaded from disk is installed as self._cache",
                 "on a disk-cache hit the loaded RegistryCache is dropped (self._cache keeps the empty cache)", witness(cfg, bad))
        # miss edge: rebuild then save what was built
        miss = "t" if hit_edge == "f" else "f"
        reach = cfg.reach(edge_successors(cfg, tid, miss))
        builds = [x for x in reach if node_has(cfg.nodes[x], lambda c: isinstance(c, ast.Call) and call_name(c) == "_build_cache")]
        saves = [x for x in reach if node_has(cfg.nodes[x], lambda c: isinstance(c, ast.Call) and call_name(c) == "save")]
        ck.check(bool(builds) and bool(saves), "G-MEMO-HIT", "disk_cache|miss-builds-and-saves", fi.loc(cfg.nodes[tid].ast),
                 "a miss rebuilds the cache and saves it", "a disk-cache miss does not rebuild and save the cache")
        for x in saves:
            c = [c for c in ast.walk(cfg.nodes[x].ast) if isinstance(c, ast.Call) and call_name(c) == "save"][0]
            ck.check(norm(c.args[0]) == "self._cache", "G-MEMO-HIT", "disk_cache|saves-built-cache", fi.loc(c),
                     "saves self._cache", f"saves `{norm(c.args[0])}` instead of the cache just built")
            # save must come after build on every path
            p = cfg.all_paths_pass(tid, [x], builds)
            ck.check(p is None, "G-MEMO-HIT", "disk_cache|save-after-build", fi.loc(c), "saved after rebuilding",
                     "the cache can be saved before it is rebuilt", witness(cfg, p))
    # key shape of the disk cache (C10-e)
    fi = ix.func("pint.delegates.base_defparser", "build_disk_cache_class")
    ck.analysed(fi)
    src = norm(fi.node)
    hdr = [c for c in ast.walk(fi.node) if isinstance(c, ast.ClassDef)]
    fields = {}
    for c in hdr:
        for st in c.body:
            if isinstance(st, ast.AnnAssign) and isinstance(st.target, ast.Name):
                fields[st.target.id] = (c.name, norm(st.value))
    p0 = fi.node.args.args[0].arg if fi.node.args.args else "?"
    ck.check(any(p0 in v for (_, v) in fields.values()), "G-MEMO-KEY", "disk_cache|header-has-non_int_type", fi.loc(),
             "cache header depends on the numeric type", "the disk-cache header no longer depends on non_int_type (caches of different numeric types collide)")
    ck.check(any("__version__" in v for (_, v) in fields.values()), "G-MEMO-KEY", "disk_cache|header-has-version", fi.loc(),
             "cache header depends on the pint version", "the disk-cache header no longer depends on the pint version")
    bases = {c.name: [norm(b) for b in c.bases] for c in hdr}
    ck.check(any(any("NameByFileContent" in b for b in bs) for bs in bases.values()), "G-MEMO-KEY", "disk_cache|file-variant-named-by-content", fi.loc(),
             "file caches are named by file content", "file caches are no longer named by file content")
    ck.check(any(any("NameByHashIter" in b for b in bs) for bs in bases.values()), "G-MEMO-KEY", "disk_cache|project-variant-named-by-content-hashes", fi.loc(),
             "parsed-project caches are named by content hashes", "parsed-project caches are no longer named by content hashes")


# ------------------------------------------------------------------ context overlay / switch
_SWITCH = {}


def _switch_function(ix):
    """GenericContextRegistry._switch_context_cache_and_units with its private value-less helpers inlined (an extracted
    `_apply_redefinitions`-like helper must not hide the statements the rules reason about)."""
    if id(ix) not in _SWITCH:
        _SWITCH[id(ix)] = looked_through(ix, ix.func(CR, "GenericContextRegistry._switch_context_cache_and_units"), skip=("_redefine",))
    return _SWITCH[id(ix)]


def rule_context_overlay(ck, ix):
    fi = ix.func(CR, "ContextCacheOverlay.__init__")
    ck.analysed(fi)
    assigned = {}
    for a in walk_local(fi.node):
        if isinstance(a, ast.Assign):
            for t in a.targets:
                if isinstance(t, ast.Attribute) and dotted(t.value) == "self":
                    assigned[t.attr] = a.value
    for attr in ("root_units", "conversion_factor"):
        v = assigned.get(attr)
        ck.check(v is not None and _is_empty_container(v) and not (isinstance(v, ast.Constant)), "G-MEMO-INV",
                 f"memo=ContextCacheOverlay:{attr}|fresh-per-context-combination", fi.loc(v) if v is not None else fi.loc(),
                 f"overlay has its own empty {attr} table",
                 f"the context overlay shares or omits `{attr}`: factors computed under redefinitions leak into / from the base cache")
    for attr in ("dimensional_equivalents", "dimensionality", "parse_unit"):
        v = assigned.get(attr)
        ck.check(v is not None and (_is_empty_container(v) or norm(v).endswith("." + attr)), "G-MEMO-INV",
                 f"memo=ContextCacheOverlay:{attr}|present", fi.loc(v) if v is not None else fi.loc(),
                 f"overlay provides {attr}", f"overlay does not provide `{attr}` (shared with the base cache or fresh)")

    fi = _switch_function(ix)
    ck.analysed(fi)
    cfg, defs = cfg_of(fi), defs_of(fi)
    from . import shape as _sho
    # (1) overlay maps dropped first on every path
    drops = nodes_with(cfg, lambda x: isinstance(x, ast.Delete) and "self._units.maps" in norm(x))
    drops += nodes_with(cfg, lambda x: isinstance(x, ast.Assign) and any("self._units.maps" in norm(t) for t in x.targets) and not any(isinstance(t, ast.Subscript) and isinstance(t.slice, ast.Constant) for t in x.targets))
    if not drops:
        ck.fail("G-DOM", "switch|overlay-maps-dropped-on-every-path", fi.loc(),
                "the switch never removes the previous context's unit overlay (`del self._units.maps[:-1]` is gone)")
    for d in drops:
        a = cfg.nodes[d].ast
        if isinstance(a, ast.Delete):
            t = a.targets[0]
            ok = isinstance(t, ast.Subscript) and norm(t.slice) == ":-1"
            ck.check(ok, "G-DOM", "switch|drops-all-overlays-keeps-base", fi.loc(a), "`del maps[:-1]` keeps only the base table",
                     f"`{norm(a)}` does not remove exactly the overlay maps (all but the last)")
    p = cfg.all_paths_pass(cfg.entry, [cfg.exit], drops)
    ck.check(p is None, "G-DOM", "switch|overlay-maps-dropped-on-every-path", fi.loc(),
             "every path removes the previous overlay", "a path through the switch keeps the previous context's unit overlay", witness(cfg, p))
    first_cache_write = nodes_with(cfg, lambda x: isinstance(x, ast.Assign) and any(dotted(t) == "self._cache" for t in x.targets))
    for w in live(cfg, first_cache_write):
        p = undominated(cfg, [w], drops)
        ck.check(p is None, "G-DOM", "switch|cache-switched-after-overlay-drop", fi.loc(cfg.nodes[w].ast), "cache switched after dropping overlays",
                 "the cache is switched on a path that did not drop the old overlay first", witness(cfg, p))
    # (2) every normal exit has assigned self._cache (base or overlay)
    p = cfg.all_paths_pass(cfg.entry, [cfg.exit], first_cache_write)
    ck.check(p is None, "G-MEMO-INV", "memo=Registry:_cache|dep=ContextChain|writer=_switch_context_cache_and_units", fi.loc(),
             "every switch installs the cache of the active context combination",
             "a path through the switch leaves self._cache of the previous context combination in place", witness(cfg, p))
    # (3) no-redefinition branch installs the base cache
    base_installs = [w for w in first_cache_write if _sho.rnorm(cfg.nodes[w].ast.value, fi.node) == "self._caches[()]"]
    ck.check(bool(base_installs), "G-MEMO-INV", "switch|no-redefinitions-installs-base-cache", fi.loc(),
             "without redefinitions the base cache is installed", "the base cache `self._caches[()]` is never re-installed")
    # (4) overlay branch: key from hashable(), new overlay cache built from base, units overlay inserted at 0 before redefining
    keys = [nm for nm, ds in defs.defs.items() if any(v is not None and isinstance(v, ast.Call) and call_name(v) == "hashable" and "_active_ctx" in norm(v) for v, k, s in ds)]
    ck.check(bool(keys), "G-MEMO-KEY", "switch|overlay-keyed-by-active-chain-hashable", fi.loc(),
             "overlays keyed by ContextChain.hashable()", "overlay key is not derived from self._active_ctx.hashable()")
    for (ptab, kind, node) in writes_in(fi.node):
        if ptab in ("self._caches", "self._context_units") and kind == "item-store":
            for t in node.targets:
                if isinstance(t, ast.Subscript) and dotted(t.value) == ptab:
                    ck.check(norm(t.slice) in keys or _sho.rnorm(t.slice, fi.node) == "self._active_ctx.hashable()", "G-MEMO-KEY", f"switch|{ptab}-stored-under-chain-key", fi.loc(node),
                             f"{ptab} stored under the chain key", f"{ptab} stored under `{norm(t.slice)}`, not the chain key")
    overlay_new = [c for c in walk_local(fi.node) if isinstance(c, ast.Call) and call_name(c) == "ContextCacheOverlay"]
    ck.floor("G-MEMO-INV", len(overlay_new), 1, "ContextCacheOverlay construction")
    for c in overlay_new:
        arg = _sho.resolve(c.args[0], fi.node) if c.args else None
        ck.check(arg is not None and norm(arg) == "self._caches[()]", "G-MEMO-INV", "switch|overlay-built-on-base-cache", fi.loc(c),
                 "overlay layered on the base cache", f"overlay layered on `{norm(arg)}` instead of the base cache")
    redef = nodes_calling(cfg, "_redefine")
    ck.floor("G-DOM", len(redef), 1, "_redefine call in the switch")
    inserts = nodes_with(cfg, lambda x: isinstance(x, ast.Call) and call_name(x) == "insert" and "self._units.maps" in norm(x.func) and norm(x.args[0]) == "0")
    for r in live(cfg, redef):
        p = undominated(cfg, [r], inserts)
        ck.check(p is None, "G-DOM", "switch|redefinitions-written-into-overlay", fi.loc(cfg.nodes[r].ast),
                 "redefinitions are applied after an overlay map was inserted at position 0",
                 "redefinitions can be applied without an overlay map in front (they would overwrite the base unit table)", witness(cfg, p))
        p = undominated(cfg, [r], [w for w in first_cache_write if "ContextCacheOverlay" in norm(cfg.nodes[w].ast) or
                                   any(isinstance(c, ast.Call) and call_name(c) == "ContextCacheOverlay" for c in ast.walk(defs.inline(cfg.nodes[w].ast.value)))])
        ck.check(p is None, "G-DOM", "switch|redefinitions-computed-with-overlay-cache", fi.loc(cfg.nodes[r].ast),
                 "redefinitions are applied with the overlay cache installed",
                 "redefinitions can be applied while the base cache is installed (their root units would pollute it)", witness(cfg, p))
    # (5) save/restore of _on_redefinition in try/finally
    rule_save_restore(ck, fi, "self._on_redefinition", "switch|on_redefinition-restored")
    # (6) iteration order: oldest context first so that the newest redefinition wins
    # the loop in (under) which the redefinitions are applied iterates the chain's contexts reversed
    apply_loops = [x for x in walk_local(fi.node) if isinstance(x, ast.For) and "_active_ctx.contexts" in _sho.rnorm(x.iter, fi.node)
                   and any(isinstance(c, ast.Call) and call_name(c) == "_redefine" for c in ast.walk(x))]
    ck.floor("G-PROV", len(apply_loops), 1, "loop applying the redefinitions of the active contexts")
    for f in apply_loops:
        it = _sho.resolve(f.iter, fi.node)
        oldest_first = _sho.match("reversed(self._active_ctx.contexts)", it) is not None or _sho.match("self._active_ctx.contexts[::-1]", it) is not None
        ck.check(oldest_first, "G-PROV", "switch|redefinitions-applied-oldest-first", fi.loc(f),
                 "contexts are stored newest-first and applied reversed, so the newest redefinition wins",
                 "redefinitions are not applied in reversed (oldest-first) order: an older context would override a newer one")

    # hashable() covers what determines the overlay
    fi = ix.func(CO, "Context.hashable")
    ck.analysed(fi)
    read = {n.attr for n in walk_local(fi.node) if isinstance(n, ast.Attribute) and dotted(n.value) == "self"}
    for attr in ("name", "aliases", "funcs", "defaults", "redefinitions"):
        ck.check(attr in read, "G-MEMO-KEY", f"Context.hashable|covers-{attr}", fi.loc(),
                 f"hashable() includes {attr}", f"Context.hashable() no longer includes `{attr}`: context combinations differing in it share one overlay/cache")
    fi = ix.func(CO, "ContextChain.hashable")
    ck.analysed(fi)
    # <c>.hashable() is taken for every <c> of a loop / comprehension over self.contexts
    from .lib import find as _find
    from . import shape as _shh
    covers = False
    for (nd, b, fnh) in _find(ix, fi, "_C.hashable()"):
        it = enclosing(nd, (ast.comprehension, ast.For, ast.ListComp, ast.GeneratorExp, ast.SetComp), fnh)
        gens = it.generators if isinstance(it, (ast.ListComp, ast.GeneratorExp, ast.SetComp)) else ([it] if it is not None else [])
        covers = covers or any(norm(g_.target) == b["_C"] and _shh.rnorm(g_.iter, fnh) == "self.contexts" for g_ in gens)
    ck.check(covers, "G-MEMO-KEY", "ContextChain.hashable|covers-every-active-context", fi.loc(),
             "chain key is the tuple of every active context's key", "ContextChain.hashable() does not cover every active context")


def rule_save_restore(ck, fi, path: str, key: str):
    """b = X; X = v; ...; X = b  must restore in a finally clause."""
    cfg, defs = cfg_of(fi), defs_of(fi)
    backups = [nm for nm, ds in defs.defs.items() if any(v is not None and norm(v) == path for v, k, s in ds)]
    if not backups:
        ck.fail("G-PAIR", key, fi.loc(), f"{path} is overwritten without being saved")
        return
    restores = []
    for t in [x for x in walk_local(fi.node) if isinstance(x, ast.Try)]:
        for st in t.finalbody:
            if isinstance(st, ast.Assign) and any(dotted(tt) == path for tt in st.targets) and norm(st.value) in backups:
                restores.append((t, st))
    ck.check(bool(restores), "G-PAIR", key, fi.loc(), f"{path} restored in a finally clause",
             f"{path} is not restored in a `finally` clause: an exception leaves the temporary value in place")
    for (t, st) in restores:
        # the overwrite must be immediately before the try (nothing that can raise in between) or inside it
        overwrites = [a for a in walk_local(fi.node) if isinstance(a, ast.Assign) and any(dotted(tt) == path for tt in a.targets) and a is not st]
        for a in overwrites:
            inside = any(a is x for s_ in t.body for x in ast.walk(s_))
            par = getattr(a, "_parent", None)
            body = getattr(par, "body", []) if par is not None else []
            adj = False
            if a in body and t in body:
                between = body[body.index(a) + 1: body.index(t)]
                adj = not any(isinstance(c, (ast.Call, ast.Raise)) for b in between for c in ast.walk(b))
            ck.check(inside or adj, "G-PAIR", key + "|overwrite-protected", fi.loc(a),
                     "temporary value set directly before / inside the protecting try",
                     f"`{norm(a)}` is followed by code that can raise before the protecting try is entered")


# ------------------------------------------------------------------ base units cache
def rule_base_units_cache(ck, ix):
    fi = ix.func(SR, "GenericSystemRegistry._get_base_units")
    ck.analysed(fi)
    cfg, defs = cfg_of(fi), defs_of(fi)
    sites = [s for s in find_memo_sites(fi) if "_base_units_cache" in s.table and "source" not in s.table]
    ck.floor("G-MEMO-GUARD", len(sites), 1, "_base_units_cache lookup in _get_base_units")
    from . import shape as _shb
    slot_test = lambda at: isinstance(at, ast.Compare) and isinstance(at.ops[0], ast.In) and "_base_units_cache" in norm(at.comparators[0])
    for s in sites:
        test = s.lookup_node.test
        # the read guard: everything known where a slot of the memo is read, the membership test of the slot aside -
        # whatever the spelling (one `and`, nested ifs, guard clauses, flipped branches)
        slot_reads = [site for site, r in hit_sites(fi, "_base_units_cache") if "source" not in norm(r.value)]
        ck.floor("G-MEMO-GUARD", len(slot_reads), 1, "read of a _base_units_cache slot")
        # the answer depends on every parameter; those that are not part of the key must be pinned alike by both guards
        other_params = set(defs.params) - {"self", "cls"} - names_in(s.lookup_key)
        rfacts = None
        for r in slot_reads:
            f_ = guard_facts(r, fi.node, skip=slot_test, about=other_params)
            rfacts = f_ if rfacts is None else (rfacts & f_)
        rguard = _show(rfacts)
        ck.floor("G-MEMO-GUARD", len(s.stores), 1, "_base_units_cache store")
        for (k, v, st) in s.stores:
            ck.check(norm(k) == norm(s.lookup_key) and not reassigned_names(fi, names_in(k)), "G-MEMO-KEY", "base_units|store-key==lookup-key", fi.loc(st),
                     "stored under the looked-up key", f"stored under `{norm(k)}` but looked up with `{norm(s.lookup_key)}`")
            # the write guard: everything known where the slot is stored.  Facts that only say that an *earlier* read
            # missed (`not (<read guard> and key in memo)`) are about the memo, not about the request: left out
            wfacts = {(t, tr) for (t, tr) in guard_facts(st, fi.node, skip=slot_test, about=other_params) if "_base_units_cache" not in t}
            wconj = _show(wfacts)
            missing = _show(rfacts - wfacts)
            ck.check(not missing, "G-MEMO-GUARD", "memo=Registry:_base_units_cache|write-guard-implies-read-guard", fi.loc(st),
                     f"written only under {wconj}, read under {rguard}",
                     f"the memo is written under {wconj or 'no condition'} but read under {rguard}: entries computed for {missing} not holding are served later")
            extra = _show(wfacts - rfacts)
            ck.check(not extra, "G-MEMO-GUARD", "memo=Registry:_base_units_cache|read-guard-implies-write-guard", fi.loc(test),
                     "every condition the entries were computed under is re-checked when reading",
                     f"entries are computed under {wconj} but read under {rguard or 'no condition'}: a request for which {extra} does not hold is answered from the memo")
            # value stored == value returned afterwards
            rets = [r for r in walk_local(fi.node) if isinstance(r, ast.Return) and r.value is not None and r.lineno > st.lineno]
            for r in rets:
                ck.check(norm(r.value) == norm(v), "G-MEMO-HIT", "base_units|miss-returns-what-it-stores", fi.loc(r),
                         "miss path returns what it stored", f"miss path stores `{norm(v)}` but returns `{norm(r.value)}`")
        # `system` must not be rebound between the guard and the store other than the None-default
        # identity validation against the registry cache (D9)
        reads = _cfg_nodes_of(cfg, s.lookup_node.test)
        vtests = []
        for n in cfg.nodes:
            if n.kind == "test":
                cp = compare_parts(n.ast)
                # (self._cache may have been read into a local first: sides are compared with temporaries resolved)
                sides = [_shb.rnorm(x, fi.node) for x in cp[1:3]] if cp else []
                if cp and cp[0] in ("IsNot", "Is", "NotEq", "Eq") and "self._cache" in sides and any("_base_units_cache" in x for x in sides):
                    vtests.append((n.id, "t" if cp[0] in ("IsNot", "NotEq") else "f", [x for x in sides if x != "self._cache"][0]))
        key = "memo=Registry:_base_units_cache|dep=Registry:_cache|writer=_switch_context_cache_and_units"
        if not vtests:
            ck.fail("G-MEMO-INV", key, fi.loc(),
                    "_base_units_cache is neither switched nor validated when contexts swap self._cache/_units: base units computed inside (outside) a redefining context are served outside (inside) it")
        for (tid, stale_edge, src_attr) in vtests:
            p = undominated(cfg, reads, [tid])
            ck.check(p is None, "G-MEMO-INV", key, fi.loc(cfg.nodes[tid].ast),
                     "memo validated against the identity of self._cache before it is read",
                     "the memo can be read on a path that skips the validation against self._cache", witness(cfg, p))
            resets = _reset_nodes(cfg, "self._base_units_cache")
            upd = [n.id for n in cfg.nodes if n.kind == "stmt" and isinstance(n.ast, ast.Assign) and any(dotted(t) == src_attr for t in n.ast.targets) and _shb.rnorm(n.ast.value, fi.node) == "self._cache"]
            for name, gates in (("resets-memo", resets), ("records-source", upd)):
                bad = None
                for sx in edge_successors(cfg, tid, stale_edge):
                    if sx in gates:
                        continue
                    pth = cfg.all_paths_pass(sx, reads, gates)
                    if pth:
                        bad = pth
                ck.check(bad is None and bool(gates), "G-MEMO-INV", key + "|" + name, fi.loc(cfg.nodes[tid].ast),
                         f"stale edge {name}", f"when self._cache changed, the memo is read without {name}", witness(cfg, bad))
    # default_system setter: every normal path that rebinds the name resets the memo
    fi = ix.func(SR, "GenericSystemRegistry.default_system.setter")
    ck.analysed(fi)
    cfg = cfg_of(fi)
    rebinds = [n.id for n in cfg.nodes if n.kind == "stmt" and isinstance(n.ast, ast.Assign) and any(dotted(t) == "self._default_system_name" for t in n.ast.targets)]
    ck.floor("G-MEMO-INV", len(rebinds), 1, "assignment of _default_system_name in the setter")
    resets = _reset_nodes(cfg, "self._base_units_cache")
    p = None
    for r in rebinds:
        # any entry->exit normal path through r that avoids all resets?
        before = cfg.all_paths_pass(cfg.entry, [r], resets)
        after = _normal_path(cfg, r, resets)
        if before is not None and after is not None:
            p = before + after[1:]
    ck.check(p is None, "G-MEMO-INV", "memo=Registry:_base_units_cache|dep=Registry:_default_system_name|writer=default_system.setter", fi.loc(),
             "every path that changes the default system resets the base-units memo",
             "the default system can change without resetting _base_units_cache (e.g. default_system = None)", witness(cfg, p))
    # other writers of _default_system_name after construction
    for f in ix.all_functions():
        if f.cls is None or f.name in ("__init__", "_after_init") or f is fi:
            continue
        for (pth, kind, node) in writes_in(f.node):
            if pth.endswith("._default_system_name"):
                ck.fail("G-MEMO-INV", f"memo=Registry:_base_units_cache|dep=Registry:_default_system_name|writer={f.qualname}", f.loc(node),
                        "_default_system_name written outside the setter / construction without memo reset")


# ------------------------------------------------------------------ group / system members
def _writers(ix, cls_mod, cls_name, attrs):
    ci = ix.cls(cls_mod, cls_name)
    out = []
    for m in ci.methods.values():
        if m.name == "__init__":
            continue
        for (p, kind, node) in writes_in(m.node):
            for a in attrs:
                if p == f"self.{a}" or (p.endswith("." + a) and not p.startswith("self.")):
                    out.append((m, p, kind, node))
    return out


def rule_group_members(ck, ix):
    ci = ix.cls(GO, "Group")
    ws = [w for w in _writers(ix, GO, "Group", ["_unit_names", "_used_groups"]) if w[1].startswith("self.")]
    ck.floor("G-MEMO-INV", len({w[0].name for w in ws}), 2, "Group methods writing _unit_names/_used_groups")
    for (m, p, kind, node) in ws:
        ck.analysed(m)
        cfg = cfg_of(m)
        gates = nodes_with(cfg, lambda x: isinstance(x, ast.Call) and call_name(x) == "invalidate_members" and dotted(x.func.value) == "self")
        after_nodes_must_pass(ck, m, cfg, _cfg_nodes_of(cfg, node), gates, "G-MEMO-INV",
                              f"memo=Group:_computed_members|dep=Group:{p[5:]}|writer=Group.{m.name}",
                              "membership edit invalidates the memoised members",
                              f"Group.{m.name} edits {p} on a path that never calls self.invalidate_members()")
    inv = ix.func(GO, "Group.invalidate_members")
    ck.analysed(inv)
    cfg = cfg_of(inv)
    own = _reset_nodes(cfg, "self._computed_members")
    p = cfg.all_paths_pass(cfg.entry, [cfg.exit], own)
    ck.check(bool(own) and p is None, "G-MEMO-INV", "Group.invalidate_members|resets-own-memo", inv.loc(),
             "resets its own memo", "Group.invalidate_members does not reset self._computed_members on every path", witness(cfg, p))
    loops = [f for f in walk_local(inv.node) if isinstance(f, ast.For)]
    up = [f for f in loops if "_used_by" in norm(f.iter) and any(isinstance(c, ast.Call) and call_name(c) == "invalidate_members" for c in ast.walk(f))]
    ck.check(bool(up), "G-MEMO-INV", "memo=Group:_computed_members|dep=used-group-members|writer=Group.invalidate_members", inv.loc(),
             "invalidation propagates to the groups that use this group",
             "Group.invalidate_members does not propagate to the groups in _used_by: parents keep stale members")
    sysl = [f for f in loops if "_systems" in norm(f.iter) and any(isinstance(c, ast.Call) and call_name(c) == "invalidate_members" for c in ast.walk(f))]
    ck.check(bool(sysl), "G-MEMO-INV", "memo=System:_computed_members|dep=Group-members|writer=Group.invalidate_members", inv.loc(),
             "invalidation reaches the systems built on this group",
             "Group.invalidate_members never invalidates System._computed_members: systems keep stale members after a group edit")
    for f in sysl:
        # a guard, if any, must be membership of this group in the system's used groups
        for t in [x for x in ast.walk(f) if isinstance(x, ast.If)]:
            ck.check("_used_groups" in norm(t.test) and "self.name" in norm(t.test) and not isinstance(t.test, ast.UnaryOp),
                     "G-MEMO-INV", "Group.invalidate_members|system-guard-is-membership", inv.loc(t),
                     "systems are selected by `self.name in system._used_groups`",
                     f"systems are selected by `{norm(t.test)}`, which is not membership of this group")
    # bookkeeping symmetry (_used_groups <-> _used_by)
    for name, op in (("add_groups", "add"), ("remove_groups", "remove")):
        m = ix.func(GO, f"Group.{name}")
        calls = [c for c in walk_local(m.node) if isinstance(c, ast.Call) and call_name(c) in ("add", "remove", "discard")]
        a = [c for c in calls if "_used_groups" in norm(c.func)]
        b = [c for c in calls if "_used_by" in norm(c.func)]
        ok = len(a) == 1 and len(b) == 1 and call_name(a[0]) in (op, "discard" if op == "remove" else op) and call_name(b[0]) in (op, "discard" if op == "remove" else op) \
            and norm(b[0].args[0]) == "self.name"
        ck.check(ok, "G-TWIN", f"Group.{name}|used_groups-and-used_by-updated-together", m.loc(),
                 "_used_groups and the other group's _used_by are updated together",
                 f"Group.{name} does not update _used_groups and _used_by symmetrically (invalidation would not propagate)")
    # members: memo read guarded by None test, computed from own names + used groups
    m = ix.func(GO, "Group.members")
    ck.analysed(m)
    src = norm(m.node)
    ck.check("self._unit_names" in src and "iter_used_groups" in src, "G-PROV", "Group.members|own-units-plus-used-groups", m.loc(),
             "members = own unit names ∪ members of used groups", "Group.members is not computed from own unit names and iter_used_groups()")
    unions = [a for a in walk_local(m.node) if isinstance(a, ast.AugAssign)]
    for a in unions:
        ck.check(isinstance(a.op, ast.BitOr), "G-PROV", "Group.members|union", m.loc(a), "members accumulated with |=",
                 f"members accumulated with `{norm(a)}` (not a union)")
    acc = unions + [c for c in walk_local(m.node) if isinstance(c, ast.Call) and call_name(c) in ("update", "union") and c.args and "members" in norm(c.args[0])]
    ck.check(bool(acc), "G-PROV", "Group.members|union-present", m.loc(), "members of used groups are united into the result", "the members of the used groups are no longer united into the result")
    it = ix.func(GO, "Group.iter_used_groups")
    ck.analysed(it)
    src = norm(it.node)
    # a worklist closure: a loop runs while the pending set is non-empty, takes one name out, and the names that the
    # group taken out uses are put back (|=, update, add ... of <group>._used_groups)
    loops = [w for w in walk_local(it.node) if isinstance(w, ast.While)]
    grow = [x for w in loops for x in ast.walk(w) if (isinstance(x, ast.AugAssign) and isinstance(x.op, ast.BitOr) and "_used_groups" in norm(x.value) and norm(x.target) == norm(w.test))
            or (isinstance(x, ast.Call) and call_name(x) in ("update", "extend") and norm(x.func.value) == norm(w.test) and x.args and "_used_groups" in norm(x.args[0]))]
    take = [x for w in loops for x in ast.walk(w) if isinstance(x, ast.Call) and call_name(x) in ("pop", "popleft") and norm(x.func.value) == norm(w.test)]
    ck.check(bool(loops) and bool(grow) and bool(take), "G-PROV", "Group.iter_used_groups|transitive-worklist", it.loc(),
             "worklist closure over _used_groups", "iter_used_groups is no longer a transitive worklist over _used_groups")
    # cycle test before mutation in add_groups
    m = ix.func(GO, "Group.add_groups")
    cfg = cfg_of(m)
    muts = []
    for (p, kind, node) in writes_in(m.node):
        if "_used_groups" in p or "_used_by" in p:
            muts += _cfg_nodes_of(cfg, node)
    tests = [n.id for n in cfg.nodes if n.kind == "test" and "is_used_group" in norm(n.ast)]
    ck.floor("G-DOM", len(tests), 1, "cycle test in Group.add_groups")
    for w in live(cfg, muts):
        p = undominated(cfg, [w], tests)
        ck.check(p is None, "G-DOM", "Group.add_groups|cycle-test-before-mutation", m.loc(cfg.nodes[w].ast),
                 "cycle test precedes the mutation", "a group is linked before the cycle test", witness(cfg, p))
    for t in tests:
        from .lib import edge_leads_only_to_raise
        p = edge_leads_only_to_raise(cfg, t, "t", also_forbid=muts)
        ck.check(p is None, "G-DOM", "Group.add_groups|cycle-raises", m.loc(cfg.nodes[t].ast), "a cycle raises",
                 "a detected cycle does not raise before linking", witness(cfg, p))


def rule_system_members(ck, ix):
    ws = [w for w in _writers(ix, SO, "System", ["_used_groups"]) if w[1].startswith("self.")]
    ck.floor("G-MEMO-INV", len({w[0].name for w in ws}), 2, "System methods writing _used_groups")
    for (m, p, kind, node) in ws:
        ck.analysed(m)
        cfg = cfg_of(m)
        gates = nodes_with(cfg, lambda x: isinstance(x, ast.Call) and call_name(x) == "invalidate_members" and dotted(x.func.value) == "self")
        after_nodes_must_pass(ck, m, cfg, _cfg_nodes_of(cfg, node), gates, "G-MEMO-INV",
                              f"memo=System:_computed_members|dep=System:_used_groups|writer=System.{m.name}",
                              "group-set edit invalidates the memoised members",
                              f"System.{m.name} edits {p} on a path that never calls self.invalidate_members()")
    inv = ix.func(SO, "System.invalidate_members")
    cfg = cfg_of(inv)
    own = _reset_nodes(cfg, "self._computed_members")
    p = cfg.all_paths_pass(cfg.entry, [cfg.exit], own)
    ck.check(bool(own) and p is None, "G-MEMO-INV", "System.invalidate_members|resets-own-memo", inv.loc(),
             "resets its own memo", "System.invalidate_members does not reset self._computed_members", witness(cfg, p))
    m = ix.func(SO, "System.members")
    ck.analysed(m)
    src = norm(m.node)
    ck.check("self._used_groups" in src and ".members" in src, "G-PROV", "System.members|union-of-group-members", m.loc(),
             "members = union of the members of the used groups", "System.members is not the union over self._used_groups")
    for a in [a for a in walk_local(m.node) if isinstance(a, ast.AugAssign)]:
        ck.check(isinstance(a.op, ast.BitOr), "G-PROV", "System.members|union", m.loc(a), "accumulated with |=", f"`{norm(a)}` is not a union")


def rule_context_chain_graph(ck, ix):
    ci = ix.cls(CO, "ContextChain")
    n = 0
    for m in ci.methods.values():
        if m.name == "__init__":
            continue
        ws = [(p, k, node) for (p, k, node) in writes_in(m.node) if p in ("self.maps", "self.contexts")]
        if not ws:
            continue
        n += 1
        ck.analysed(m)
        cfg = cfg_of(m)
        gates = _reset_nodes(cfg, "self._graph")
        for (p, k, node) in ws:
            after_nodes_must_pass(ck, m, cfg, _cfg_nodes_of(cfg, node), gates, "G-MEMO-INV",
                                  f"memo=ContextChain:_graph|dep=ContextChain:{p[5:]}|writer=ContextChain.{m.name}",
                                  "chain edit resets the memoised rule graph",
                                  f"ContextChain.{m.name} changes {p} without resetting self._graph (stale shortest paths)")
    ck.floor("G-MEMO-INV", n, 2, "ContextChain methods editing maps/contexts")
    g = ix.func(CO, "ContextChain.graph")
    ck.analysed(g)
    from . import shape as _shg
    fills = [a_ for a_ in walk_local(g.node) if isinstance(a_, ast.Assign) and any(dotted(t_) == "self._graph" for t_ in a_.targets)]
    lazy = bool(fills) and all(_shg.holds_at(a_, g.node, lambda at: norm(at) == "self._graph is None", True) for a_ in fills)      # built only while unset
    ck.check(lazy and any(isinstance(f_, ast.For) and _shg.rnorm(f_.iter, g.node) in ("self", "self.keys()", "iter(self)", "list(self)", "tuple(self)", "list(self.keys())", "tuple(self.keys())") for f_ in walk_local(g.node)), "G-PROV", "ContextChain.graph|built-from-all-rules", g.loc(),
             "graph built lazily from every (src, dst) rule in the chain", "ContextChain.graph is not built from the chain's rules")
    adds = [c for c in walk_local(g.node) if isinstance(c, ast.Call) and call_name(c) == "add"]
    fors = [f for f in walk_local(g.node) if isinstance(f, ast.For)]
    for f in fors:
        if isinstance(f.target, ast.Tuple) and len(f.target.elts) == 2:
            a, b = norm(f.target.elts[0]), norm(f.target.elts[1])
            for c in [c for c in ast.walk(f) if isinstance(c, ast.Call) and call_name(c) == "add"]:
                sub = c.func.value
                ok = isinstance(sub, ast.Subscript) and norm(sub.slice) == a and norm(c.args[0]) == b and (norm(sub.value) == "self._graph" or "self._graph" in {norm(t_) for a_ in walk_local(g.node) if isinstance(a_, ast.Assign) and any(norm(t2) == norm(sub.value) for t2 in a_.targets) for t_ in a_.targets})
                ck.check(ok, "G-PROV", "ContextChain.graph|edge-direction", g.loc(c), "edge src -> dst",
                         f"`{norm(c)}` does not add the edge {a} -> {b} (direction reversed?)")
    # twin bookkeeping of contexts and maps
    ins = ix.func(CO, "ContextChain.insert_contexts")
    ck.analysed(ins)
    asg = {dotted(t): a.value for a in walk_local(ins.node) if isinstance(a, ast.Assign) for t in a.targets if dotted(t)}
    c, mp = asg.get("self.contexts"), asg.get("self.maps")
    from . import shape as _shm
    rev = lambda e: norm(_shm.resolve(e, ins.node)).replace("contexts[::-1]", "reversed(contexts)")
    # new list = <something over the reversed new contexts> followed by the old list: `front + old` or `[*front, *old]`
    cp, mpp = (concat_parts(c) if c is not None else None), (concat_parts(mp) if mp is not None else None)
    okc = cp is not None and "reversed(contexts)" in rev(cp[0]) and norm(cp[1]) == "self.contexts"
    okm = mpp is not None and "reversed(contexts)" in rev(mpp[0]) and "relation_to_context" in norm(mpp[0]) and norm(mpp[1]) == "self.maps"
    ck.check(okc and okm, "G-TWIN", "ContextChain.insert_contexts|contexts-and-maps-prepended-reversed", ins.loc(),
             "contexts and maps are both prepended in reversed order (newest first)",
             "insert_contexts does not prepend reversed(contexts) to both self.contexts and self.maps: precedence/removal order broken")
    if mpp is not None:
        lm = _shm.resolve(mpp[0], ins.node)
        filtered = [x for x in ast.walk(lm) if (isinstance(x, (ast.ListComp, ast.GeneratorExp, ast.SetComp)) and any(g_.ifs for g_ in x.generators))
                    or (isinstance(x, ast.Call) and call_name(x) in ("filter", "filterfalse", "compress", "takewhile", "dropwhile"))]
        ck.check(not filtered, "G-TWIN", "ContextChain.insert_contexts|one-map-per-inserted-context", ins.loc(mp),
                 "every inserted context contributes exactly one map (remove_contexts drops n contexts and n maps)",
                 f"`{norm(filtered[0]) if filtered else ''}` leaves out the map of some inserted contexts: contexts and maps get out of step, and leaving an inner context removes the rules of an outer one")
    rem = ix.func(CO, "ContextChain.remove_contexts")
    ck.analysed(rem)
    # what is deleted from which list: `del self.contexts[:n]; del self.maps[:n]`, a loop over both lists, or the slice
    # held in a temporary (`first_n = slice(None, n)`)
    from . import shape as _shr

    def slice_text(sl):
        r = _shr.resolve(sl, rem.node)
        if isinstance(r, ast.Call) and isinstance(r.func, ast.Name) and r.func.id == "slice" and not r.keywords and 1 <= len(r.args) <= 3:
            lo, hi, step = (None, r.args[0], None) if len(r.args) == 1 else (list(r.args) + [None])[:3]
            txt = lambda x: "" if x is None or (isinstance(x, ast.Constant) and x.value is None) else norm(x)
            return f"[{txt(lo)}:{txt(hi)}" + (f":{txt(step)}" if txt(step) else "") + "]"
        return f"[{norm(r)}]"
    tg = set()
    for (p_, k_, nd) in writes_in(rem.node):
        if k_ == "item-del" and p_ in ("self.contexts", "self.maps"):
            for t in nd.targets:
                if isinstance(t, ast.Subscript):
                    tg.add(p_ + slice_text(t.slice))
    tg = sorted(tg)
    ck.check(tg == ["self.contexts[:n]", "self.maps[:n]"], "G-TWIN", "ContextChain.remove_contexts|contexts-and-maps-truncated-alike", rem.loc(),
             "the first n entries are removed from both lists", f"remove_contexts deletes {tg}: contexts and maps are not truncated alike")


def rule_quantity_dimensionality_memo(ck, ix):
    fi = ix.func("pint.facets.plain.quantity", "PlainQuantity.dimensionality")
    ck.analysed(fi)
    cfg = cfg_of(fi)
    from . import shape as _shq
    rets = [r for r in return_nodes(cfg) if "_dimensionality" in norm(cfg.nodes[r].ast)]

    def same_units(at):
        """positive atom `<recorded units> is self._units` (or ==), in either order"""
        if not (isinstance(at, ast.Compare) and len(at.ops) == 1 and isinstance(at.ops[0], (ast.Is, ast.Eq))):
            return False
        sides = [norm(at.left), norm(at.comparators[0])]
        return "self._units" in sides and any("_dimensionality" in x for x in sides)
    # edges on which the memo is known to have been computed for the current units container - however the test is
    # spelled (`is not` / `not ... is`, either branch first, alone or combined with the is-None test)
    valid = _shq.guard_edges(cfg, same_units, want=True)
    tests = sorted({t for t, _ in valid})
    key = "memo=Quantity:_dimensionality|dep=Quantity:_units|writer=in-place-operators"
    if not tests:
        # alternative accepted idiom: no memo at all (computed on every access)
        direct = any(isinstance(cfg.nodes[r].ast.value, ast.Call) and call_name(cfg.nodes[r].ast.value) == "_get_dimensionality" for r in return_nodes(cfg))
        ck.check(direct, "G-MEMO-INV", key, fi.loc(), "dimensionality recomputed on access",
                 "the per-object dimensionality memo is not validated against self._units: in-place operations (ito with a context, *=, /=, //=, **=) leave it stale")
        return
    for r in live(cfg, rets):
        p = undominated(cfg, [r], tests)
        ck.check(p is None, "G-MEMO-INV", key, fi.loc(cfg.nodes[r].ast), "memo validated against the units container it was computed for",
                 "the memo can be returned without validation against self._units", witness(cfg, p))
    upd = [n.id for n in cfg.nodes if n.kind == "stmt" and isinstance(n.ast, ast.Assign) and norm(n.ast.value) == "self._units"
           and any("_dimensionality" in (dotted(tt) or "") for tt in n.ast.targets)]
    comp = [n.id for n in cfg.nodes if n.kind == "stmt" and isinstance(n.ast, ast.Assign) and any(dotted(tt) == "self._dimensionality" for tt in n.ast.targets)
            and isinstance(n.ast.value, ast.Call) and call_name(n.ast.value) == "_get_dimensionality"]
    for name, gates in (("records-units", upd), ("recomputes", comp)):
        # a path that reaches the return without taking a "memo is valid" edge has recorded the units / recomputed
        bad = cfg.all_paths_pass(cfg.entry, live(cfg, rets), gates, set(valid)) if live(cfg, rets) else None
        ck.check(bool(gates) and bad is None, "G-MEMO-INV", key + "|" + name, fi.loc(cfg.nodes[tests[0]].ast),
                 f"stale edge {name}", f"on a stale memo the property returns without {name}", witness(cfg, bad))
    # who may write the memo
    key_attrs = set()
    for nd_ in ast.walk(fi.node):
        if isinstance(nd_, ast.Compare) and len(nd_.ops) == 1 and isinstance(nd_.ops[0], (ast.Is, ast.IsNot, ast.Eq, ast.NotEq)) \
                and "self._units" in (norm(nd_.left), norm(nd_.comparators[0])):
            for side in (nd_.left, nd_.comparators[0]):
                if isinstance(side, ast.Attribute) and norm(side) != "self._units" and "_dimensionality" in side.attr:
                    key_attrs.add(side.attr)
    key_attrs.discard("_dimensionality")
    for f in ix.all_functions():
        if f is fi:
            continue
        for (p, kind, node) in writes_in(f.node):
            if p.endswith("._dimensionality") and f.cls is not None and f.cls.name in ("PlainQuantity",) :
                ck.fail("G-OWN", f"Quantity:_dimensionality|written-by={f.qualname}", f.loc(node), "the per-object memo is written outside its property")
            # the field that records *which* units container the memo was computed for (the other side of the
            # validity test) is part of the memo: re-pointing it at another container outside the property makes a
            # stale value pass the validity test (ito under a context changes the dimensionality). Storing None
            # only invalidates and is accepted.
            if kind == "attr-store" and p.rsplit(".", 1)[-1] in key_attrs and f.cls is not None and f.cls.name in ("PlainQuantity",):
                val = getattr(node, "value", None)
                if isinstance(val, ast.Constant) and val.value is None:
                    ck.ok("G-OWN", f"Quantity:{p.rsplit('.', 1)[-1]}|invalidated-by={f.qualname}", f.loc(node), "the recorded units are reset to None (invalidation)")
                else:
                    ck.fail("G-OWN", f"Quantity:{p.rsplit('.', 1)[-1]}|written-by={f.qualname}", f.loc(node),
                            f"`{norm(node)}` re-points the units container the dimensionality memo is recorded for outside the property: a memo computed for other units then passes the validity test (stale dimensionality after an in-place conversion under a context)")


def rule_unit_dimensionality_memo(ck, ix):
    """PlainUnit._dimensionality has no validation: legal only while Unit._units is written in __init__ only."""
    fi = ix.func("pint.facets.plain.unit", "PlainUnit.dimensionality")
    ck.analysed(fi)
    unit_cls = ix.cls("pint.facets.plain.unit", "PlainUnit")
    n = 0
    for f in ix.all_functions():
        if f.cls is None or unit_cls not in ix.mro(f.cls):
            continue
        for (p, kind, node) in writes_in(f.node):
            if p == "self._units":
                n += 1
                ck.check(f.name == "__init__", "G-MEMO-INV", f"memo=Unit:_dimensionality|dep=Unit:_units|writer={f.cls.name}.{f.name}", f.loc(node),
                         "Unit._units only assigned during construction", f"{f.qualname} rebinds self._units of a Unit after construction while its dimensionality memo is never invalidated")
    ck.floor("G-MEMO-INV", n, 1, "assignments of PlainUnit._units in __init__")
    # nobody else assigns <x>._units on objects that may be Units
    # (an object under construction - the receiver is the result of a `__new__` call made in the same function - is
    # not "another object": that is how PlainQuantity.__new__ initialises the instance it returns)
    from . import shape as _shu
    for f in ix.all_functions():
        for (p, kind, node) in writes_in(f.node):
            if p.endswith("._units") and kind == "attr-store" and not p.startswith("self."):
                recvs = [t.value for t in ast.walk(node) if isinstance(t, ast.Attribute) and isinstance(t.ctx, ast.Store) and t.attr == "_units" and isinstance(t.value, ast.Name)]
                made = [_shu.dominating_def(r, f.node) for r in recvs]
                if recvs and all(isinstance(v, ast.Call) and call_name(v) == "__new__" for v in made):
                    ck.ok("G-OWN", f"_units|foreign-write|{f.qualname}", f.loc(node), "the receiver is the object under construction (result of __new__ in this function)")
                    continue
                ck.fail("G-OWN", f"_units|foreign-write|{f.qualname}", f.loc(node), f"`{norm(node)}` rebinds the units of another object")


# ------------------------------------------------------------------ lru caches / process-wide state
IMPURE_HINTS = ("self.", "cls._", "REGISTERED_FORMATTERS")


def rule_lru_purity(ck, ix):
    """lru_cache / cache / cached_property functions must be functions of their arguments and
    immutable module constants; those reading a growing process-wide table need every writer
    of that table to clear the cache."""
    found = []
    for f in ix.all_functions():
        if not isinstance(f.node, (ast.FunctionDef, ast.AsyncFunctionDef)):
            continue
        decos = [norm(d) for d in f.node.decorator_list]
        if any("lru_cache" in d or d in ("cache", "functools.cache") or "cached_property" in d for d in decos):
            found.append((f, decos))
    ck.floor("G-MEMO-INV", len(found), 3, "lru_cache/cached_property functions in pint")
    for f, decos in found:
        ck.analysed(f)
        reads_tables = set()
        # transitive one level: module-level mutable tables read by the function or its same-module callees
        todo, seen = [f], set()
        while todo:
            g = todo.pop()
            if g in seen:
                continue
            seen.add(g)
            for n in walk_local(g.node):
                if isinstance(n, ast.Name) and isinstance(n.ctx, ast.Load) and n.id in g.module.assigns:
                    v = g.module.assigns[n.id]
                    if isinstance(v, (ast.Dict, ast.List, ast.Set)) or (isinstance(v, ast.Call) and call_name(v) in ("dict", "list", "set", "defaultdict")):
                        reads_tables.add((g.module.name, n.id))
                if isinstance(n, ast.Call) and isinstance(n.func, ast.Name) and n.func.id in g.module.functions:
                    todo.append(g.module.functions[n.func.id])
        if any("cached_property" in d for d in decos):
            # per-instance memo of a frozen dataclass field function
            ci = f.cls
            frozen = ci is not None and any("frozen=True" in norm(d) for d in ci.node.decorator_list)
            ck.check(frozen, "G-MEMO-INV", f"lru|{f.qualname}|cached_property-on-frozen-dataclass", f.loc(),
                     "cached_property on a frozen dataclass", "cached_property on a mutable class: fields it depends on can change")
            continue
        uses_self = any(isinstance(n, ast.Attribute) and dotted(n.value) in ("self",) for n in walk_local(f.node))
        ck.check(not uses_self, "G-MEMO-INV", f"lru|{f.qualname}|no-instance-state", f.loc(),
                 "memoised function reads no instance state", "lru_cache on a function that reads instance state")
        for (mn, tbl) in sorted(reads_tables):
            writers = _table_writers(ix, mn, tbl)
            if not writers:
                ck.ok("G-MEMO-INV", f"lru|{f.qualname}|table={tbl}|never-written", f.loc(), f"reads constant table {tbl}")
                continue
            for w, node in writers:
                clears = [c for c in walk_local(w.node) if isinstance(c, ast.Call) and call_name(c) == "cache_clear" and f.name in norm(c.func)]
                # nested closures: search the enclosing top-level function as well
                top = w
                while top.parent is not None:
                    top = top.parent
                clears += [c for c in ast.walk(top.node) if isinstance(c, ast.Call) and call_name(c) == "cache_clear" and f.name in norm(c.func)]
                ck.check(bool(clears), "G-MEMO-INV", f"memo=lru:{f.name}|dep={tbl}|writer={top.name}", w.loc(node),
                         f"writer of {tbl} clears the {f.name} cache",
                         f"{w.qualname} adds to {tbl}, which the lru_cached {f.name} depends on, without clearing that cache")


def _table_writers(ix, modname, tbl):
    out = []
    for f in ix.all_functions():
        r = ix.resolve(f.module, tbl)
        tgt = ix.modules[modname]
        same = (f.module is tgt and tbl in tgt.assigns) or (isinstance(r, tuple) and r[0] == "assign" and r[1] is tgt)
        if not same:
            continue
        for (p, kind, node) in writes_in(f.node):
            if p == tbl:
                out.append((f, node))
    return out


def rule_overlay_not_reused(ck, ix):
    # an overlay stored under the chain key before its redefinitions are applied must not be reused by a later activation
    fi = _switch_function(ix)
    cfg = cfg_of(fi)
    redef = nodes_calling(cfg, "_redefine")
    hits = [n.id for n in cfg.nodes if n.kind == "stmt" and isinstance(n.ast, ast.Assign) and any(dotted(t) == "self._cache" for t in n.ast.targets)
            and "self._caches[" in norm(n.ast.value) and norm(n.ast.value) != "self._caches[()]"]
    stores = [n.id for n in cfg.nodes if n.kind == "stmt" and isinstance(n.ast, ast.Assign) and any(isinstance(t, ast.Subscript) and dotted(t.value) in ("self._caches", "self._context_units") for t in n.ast.targets)]
    reuse = None
    for h in hits:
        # a normal path from the cache hit to the exit that does not rebuild (re-store) the overlay = reuse
        pth = _normal_path(cfg, h, stores)
        if pth:
            reuse = pth
    if reuse is None:
        ck.ok("G-PAIR", "switch|cached-overlay-never-reused-without-rebuild", fi.loc(), "a cache hit still rebuilds the overlay (no reuse of stored overlays)")
    else:
        evict = nodes_with(cfg, lambda x: (isinstance(x, ast.Call) and call_name(x) == "pop" and ("_caches" in norm(x.func) or "_context_units" in norm(x.func))) or
                           (isinstance(x, ast.Delete) and ("_caches[" in norm(x) or "_context_units[" in norm(x))))
        bad = None
        for st in stores:
            if st in cfg.reach([cfg.entry]):
                # can a redefinition fail after the store and leave the entry behind?
                for r in redef:
                    if r in cfg.reach([st]):
                        pth = cfg.path(r, [cfg.rexit], avoid=set(evict))
                        if pth:
                            bad = pth
        ck.check(bad is None, "G-PAIR", "switch|cached-overlay-never-reused-without-rebuild", fi.loc(cfg.nodes[reuse[0]].ast),
                 "stored overlays are evicted when their construction fails",
                 "the overlay is stored under the chain key before its redefinitions are applied and a later activation reuses it without rebuilding: after a failed activation the same invalid context activates silently with a half-built overlay",
                 witness(cfg, bad))



def rule_lazy_prefixed_units(ck, ix):
    """get_name grows the unit table on lookup (the `_units` 'memo' of prefixed units).  For answers to be history
    independent the lazily registered entry must be invisible to everything that distinguishes defined from derived
    spellings: it is stored once, under prefix + unit_name only, and it stays out of the case-insensitive index that
    _yield_unit_triplets uses as 'is a defined spelling' test."""
    fi = looked_through(ix, ix.func(PR, "GenericPlainRegistry.get_name"), skip=("_helper_adder", "_helper_single_adder"))     # an extracted `_define_prefixed_unit` is looked through
    ck.analysed(fi)
    defs = defs_of(fi)
    ws = writes_in(fi.node)
    cas = [(p, k, nd) for (p, k, nd) in ws if "_units_casei" in p]
    ck.check(not cas, "G-OWN", "memo=Registry:_units(lazy-prefixed)|not-in-casei-index", fi.loc(cas[0][2]) if cas else fi.loc(),
             "lazily registered prefixed units stay out of the case-insensitive index",
             "get_name enters the lazily registered prefixed unit into _units_casei: after one lookup of 'kilosecond', 'millikilosecond' and case-insensitive spellings parse, on a fresh registry they do not")
    st = [(p, k, nd) for (p, k, nd) in ws if p.startswith("self._units") and "casei" not in p]
    ck.check(len(st) == 1, "G-OWN", "memo=Registry:_units(lazy-prefixed)|single-entry", fi.loc(st[1][2]) if len(st) > 1 else fi.loc(), "one lazily added entry per lookup",
             f"get_name writes the unit table {len(st)} times: additional spellings registered on lookup change later parses")
    other = [(p, k, nd) for (p, k, nd) in ws if p.startswith("self.") and not p.startswith("self._units")]
    ck.check(not other, "G-OWN", "memo=Registry:_units(lazy-prefixed)|no-other-state", fi.loc(other[0][2]) if other else fi.loc(), "a lookup writes nothing but the lazily added unit",
             f"get_name also writes {other[0][0] if other else ''}: a read-only lookup changes registry state")
    from . import shape as _shl
    for (p, k, nd) in st[:1]:
        if isinstance(nd, ast.Assign) and isinstance(nd.targets[0], ast.Subscript):
            # the key is <prefix> + <unit name> of the chosen reading: the first two components of one and the same
            # (prefix, unit, suffix) candidate, whatever the locals are called
            key = _shl.resolve(nd.targets[0].slice, fi.node)
            ck.check(_shl.match("_C[0][0] + _C[0][1]", key) is not None, "G-MEMO-KEY", "memo=Registry:_units(lazy-prefixed)|key", fi.loc(nd), "stored under the canonical long name", f"the lazily added unit is stored under `{norm(nd.targets[0].slice)}` (= `{norm(key)}`), not the canonical prefix + unit_name")
    yt = ix.func(PR, "GenericPlainRegistry._yield_unit_triplets")
    ck.analysed(yt)
    # Where a key N of the unit table itself is turned into a reading (the yield of (self._prefixes[P].name,
    # self._units[N].name, ...), or the statement that selects N as the spelling to yield), "P is empty or N is a defined
    # spelling" is known: the site is never reached with (P non-empty and N not in the case-insensitive index of defined
    # spellings) - as an enclosing test or as a guard clause, in either polarity.
    yields = [y for y in walk_local(yt.node) if isinstance(y, ast.Yield) and isinstance(y.value, ast.Tuple) and len(y.value.elts) == 3]
    prefixes = {b_["_P"] for b_ in (_shl.match("self._prefixes[_P].name", y.value.elts[0]) for y in yields) if b_ is not None}
    in_table = lambda at: isinstance(at, ast.Compare) and isinstance(at.ops[0], ast.In) and norm(at.comparators[0]) == "self._units"
    direct = []
    for x in walk_local(yt.node):
        if isinstance(x, (ast.Yield, ast.Assign)):
            Ns = {norm(at.left) for at, tr in _shl.facts_at(x, yt.node) if tr and in_table(at)}
            if Ns:
                direct.append((x, Ns))
    ck.floor("G-DOM", len(direct) if prefixes else 0, 1, "reading produced from a key of the unit table in _yield_unit_triplets")
    ok = True
    for x, Ns in direct:
        defined = lambda at: isinstance(at, ast.Compare) and isinstance(at.ops[0], ast.In) and norm(at.left) in Ns and "_units_casei" in norm(at.comparators[0])
        prot = [ex for ex in excluded_conjunctions(x, yt.node) if len(ex) == 2 and any(norm(at) in prefixes and tr for at, tr in ex) and any(defined(at) and not tr for at, tr in ex)]
        ok = ok and bool(prot)
    ck.check(ok, "G-DOM", "_yield_unit_triplets|prefix-only-on-defined-spellings", yt.loc(direct[0][0]),
             "a prefix is only applied to defined spellings (not to prefixed units registered lazily by an earlier lookup)",
             "prefixes are applied to any key of the unit table, including lazily registered prefixed units: 'kilomillifoot' parses after 'millifoot' was looked up, a fresh registry rejects it")
    # symbol / casei twin lookups are read-only
    for q in ("GenericPlainRegistry.get_symbol", "GenericPlainRegistry.get_dimensionality", "GenericPlainRegistry.get_root_units", "GenericPlainRegistry.get_compatible_units", "GenericPlainRegistry._get_compatible_units"):
        f = ix.func(PR, q)
        ck.analysed(f)
        w = [(p, k, nd) for (p, k, nd) in writes_in(f.node) if p.startswith("self.") and not p.startswith("self._cache")]
        ck.check(not w, "G-OWN", f"read-only-query|{q.split('.')[1]}", f.loc(w[0][2]) if w else f.loc(), "writes only memo tables", f"{q} writes {w[0][0] if w else ''}: a read-only query changes registry state other than its memo")


def rule_shared_mutable_state(ck, ix):
    """'One registry never changes another's answers': class-level and module-level mutable
    tables written after import are inventoried; every writer must be in the confirmed list."""
    allowed = {
        ("pint.delegates.formatter._spec_helpers", "REGISTERED_FORMATTERS"): {"register_unit_format"},
        ("pint.facets.numpy.numpy_func", "HANDLED_UFUNCS"): {"implements"},
        ("pint.facets.numpy.numpy_func", "HANDLED_FUNCTIONS"): {"implements"},
        ("pint.compat", "upcast_type_map"): {"check_upcast_type"},
        ("pint.compat", "upcast_type_names"): set(),
    }
    n = 0
    for m in ix.modules.values():
        for nm, v in m.assigns.items():
            mutable = isinstance(v, (ast.Dict, ast.List, ast.Set)) or (isinstance(v, ast.Call) and call_name(v) in ("dict", "list", "set", "defaultdict", "WeakValueDictionary"))
            if not mutable:
                continue
            ws = _table_writers(ix, m.name, nm)
            for w, node in ws:
                n += 1
                top = w
                while top.parent is not None:
                    top = top.parent
                ok = top.name in allowed.get((m.name, nm), set()) or w.name in allowed.get((m.name, nm), set())
                ck.check(ok, "G-OWN", f"process-wide|{m.name}.{nm}|writer={top.name}", w.loc(node),
                         f"confirmed writer of process-wide table {nm}",
                         f"{w.qualname} writes the process-wide table {m.name}.{nm} (shared by all registries) and is not a confirmed writer")
    ck.floor("G-OWN", n, 1, "writers of module-level mutable tables")
    # class-level mutable attributes written through instances/classes
    fmt = ix.cls("pint.delegates.formatter.full", "FullFormatter")
    init = fmt.methods.get("__init__")
    rebinding = init is not None and any(isinstance(a, ast.Assign) and any(dotted(t) == "self._formatters" for t in a.targets) and _is_empty_container(a.value)
                                         for a in walk_local(init.node))
    ck.check(rebinding, "G-OWN", "FullFormatter._formatters|rebound-per-instance", init.loc() if init else fmt.module.relpath,
             "class-level _formatters dict is re-bound to a fresh dict per instance",
             "FullFormatter.__init__ no longer re-binds the class-level _formatters dict: all registries would share (and fill) one formatter table")


def alias_adder_facts(ix):
    """Facts about GenericPlainRegistry._add_alias, found by role rather than by spelling:
       every_alias -- a call self._helper_single_adder(A, U, <units table>, ...) sits in a loop over
                      definition.aliases with A the loop variable;
       looks_up    -- every definition of U is a plain subscription of the units table (so an unknown target raises
                      KeyError), one of them by definition.name, none inside a try that swallows the error."""
    from . import shape as _sh
    fi = ix.func("pint.facets.plain.registry", "GenericPlainRegistry._add_alias")
    fn = fi.node
    _sh._set_parents(fn)
    calls = [c for c in ast.walk(fn) if isinstance(c, ast.Call) and norm(c.func) == "self._helper_single_adder" and len(c.args) >= 3]
    every_alias = looks_up = False
    for c in calls:
        if _sh.rnorm(c.args[2], fn) != "self._units" or not isinstance(c.args[0], ast.Name) or not isinstance(c.args[1], ast.Name):
            continue
        cur, loop = c, None
        while cur is not None and cur is not fn:
            cur = getattr(cur, "_parent", None)
            if isinstance(cur, ast.For) and isinstance(cur.target, ast.Name) and cur.target.id == c.args[0].id:
                loop = cur
                break
        if loop is None or _sh.rnorm(loop.iter, fn) != "definition.aliases" or _sh.dead(c, fn):
            continue
        every_alias = True
        uname = c.args[1].id
        stores = [n for n in ast.walk(fn) if isinstance(n, ast.Name) and n.id == uname and isinstance(n.ctx, ast.Store)]
        vals = []
        for s in stores:
            st = getattr(s, "_parent", None)
            vals.append(st.value if isinstance(st, (ast.Assign, ast.AnnAssign)) and getattr(st, "value", None) is not None else None)
        ok = bool(vals) and all(isinstance(v, ast.Subscript) and _sh.rnorm(v.value, fn) == "self._units" for v in vals)
        ok = ok and any(_sh.rnorm(v.slice, fn) == "definition.name" for v in vals)
        for s in stores:
            cur = s
            while cur is not None and cur is not fn:
                par = getattr(cur, "_parent", None)
                if isinstance(par, ast.Try) and any(cur is b for b in par.body):
                    if any(not _sh._terminates(h.body) or not isinstance(h.body[-1], ast.Raise) for h in par.handlers):
                        ok = False
                cur = par
        looks_up = ok
    return fi, every_alias, looks_up
