"""A tiny abstract interpreter for straight-line/if predicate functions over a *finite*
abstract environment (static analysis by exhaustive case split; the real code is never run).

Supported fragment: assignments to local names, if/elif/else, return, boolean operators,
comparisons with ==, !=, >, <, >=, <=, `is None`, `not`, integer/boolean constants, and
*oracle* expressions: any other sub-expression is looked up, by its normalised source text,
in the environment supplied by the rule (e.g. "len(self._units)" -> 2).  An expression that
is neither in the fragment nor in the environment raises Unsupported (-> ANALYSIS-ERROR).
"""
from __future__ import annotations

import ast

from .flow import norm
from .index import AnalysisError


class Unsupported(AnalysisError):
    pass


class _Return(Exception):
    def __init__(self, v):
        self.v = v


def eval_expr(e, env, locals_):
    s = norm(e)
    if s in env:
        return env[s]
    if isinstance(e, ast.Constant):
        return e.value
    if isinstance(e, ast.Name):
        if e.id in locals_:
            return locals_[e.id]
        raise Unsupported(f"absint: unknown name {e.id}")
    if isinstance(e, ast.BoolOp):
        if isinstance(e.op, ast.And):
            v = True
            for x in e.values:
                v = eval_expr(x, env, locals_)
                if not v:
                    return v
            return v
        v = False
        for x in e.values:
            v = eval_expr(x, env, locals_)
            if v:
                return v
        return v
    if isinstance(e, ast.UnaryOp) and isinstance(e.op, ast.Not):
        return not eval_expr(e.operand, env, locals_)
    if isinstance(e, ast.Compare):
        left = eval_expr(e.left, env, locals_)
        for op, c in zip(e.ops, e.comparators):
            right = eval_expr(c, env, locals_)
            ok = {ast.Eq: lambda a, b: a == b, ast.NotEq: lambda a, b: a != b, ast.Gt: lambda a, b: a > b,
                  ast.Lt: lambda a, b: a < b, ast.GtE: lambda a, b: a >= b, ast.LtE: lambda a, b: a <= b,
                  ast.Is: lambda a, b: a is b, ast.IsNot: lambda a, b: a is not b}.get(type(op))
            if ok is None:
                raise Unsupported(f"absint: comparison {type(op).__name__}")
            if not ok(left, right):
                return False
            left = right
        return True
    if isinstance(e, ast.IfExp):
        return eval_expr(e.body if eval_expr(e.test, env, locals_) else e.orelse, env, locals_)
    raise Unsupported(f"absint: expression `{s}` outside the fragment and not in the abstract environment")


def run_block(stmts, env, locals_):
    for st in stmts:
        if isinstance(st, ast.Expr) and isinstance(st.value, ast.Constant):
            continue  # docstring
        if isinstance(st, ast.Assign) and len(st.targets) == 1 and isinstance(st.targets[0], ast.Name):
            locals_[st.targets[0].id] = eval_expr(st.value, env, locals_)
        elif isinstance(st, ast.AnnAssign) and isinstance(st.target, ast.Name) and st.value is not None:
            locals_[st.target.id] = eval_expr(st.value, env, locals_)
        elif isinstance(st, ast.If):
            run_block(st.body if eval_expr(st.test, env, locals_) else st.orelse, env, locals_)
        elif isinstance(st, ast.Return):
            raise _Return(eval_expr(st.value, env, locals_) if st.value is not None else None)
        elif isinstance(st, ast.Pass):
            continue
        else:
            raise Unsupported(f"absint: statement `{norm(st).splitlines()[0]}` outside the fragment")


def evaluate(fn: ast.FunctionDef, env: dict, args: dict):
    """Abstractly evaluate `fn` with parameter values `args` and oracle environment `env`."""
    locals_ = dict(args)
    try:
        run_block(fn.body, env, locals_)
    except _Return as r:
        return r.v
    return None
