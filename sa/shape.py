"""Shape-insensitive matching helpers, so that rules decide *what* the code does on every path and not how it is
spelled: condition polarity (if c: raise / if not c: ... else raise), temporaries, module-level constants, small
private helpers and renamed locals must not matter."""
from __future__ import annotations

import ast
from typing import Callable, Iterable, Optional

from .flow import clone, norm
from .index import walk_local


# ---------------------------------------------------------------- condition polarity
def atoms(test: ast.AST):
    """Yield (atom, holds_on) for a test that is a single possibly negated atom: holds_on is 't' or 'f' = the edge
    of the test on which the *un-negated, positive form* of the atom holds.  Positive forms: `a in b`, `a is b`,
    `a == b`, `x` (truthy), a call.  `a not in b` is the negation of `a in b`, etc."""
    neg = False
    t = test
    while isinstance(t, ast.UnaryOp) and isinstance(t.op, ast.Not):
        neg = not neg
        t = t.operand
    if isinstance(t, ast.Compare) and len(t.ops) == 1:
        op = t.ops[0]
        flip = {ast.NotIn: ast.In, ast.IsNot: ast.Is, ast.NotEq: ast.Eq}
        for k, v in flip.items():
            if isinstance(op, k):
                pos = ast.Compare(left=t.left, ops=[v()], comparators=t.comparators)
                yield pos, ("f" if not neg else "t")
                return
    yield t, ("t" if not neg else "f")


def conjuncts(test: ast.AST, holds_on: str = "t"):
    """Atoms that are known to hold on edge `holds_on` of `test`: for `a and b` both hold on 't'; for `a or b` both
    negations hold on 'f'.  Yields (positive_atom, truth) where truth is True if the positive atom holds."""
    t = test
    if isinstance(t, ast.BoolOp) and ((isinstance(t.op, ast.And) and holds_on == "t") or (isinstance(t.op, ast.Or) and holds_on == "f")):
        for v in t.values:
            yield from conjuncts(v, holds_on)
        return
    if isinstance(t, ast.UnaryOp) and isinstance(t.op, ast.Not):
        yield from conjuncts(t.operand, "f" if holds_on == "t" else "t")
        return
    if isinstance(t, ast.BoolOp):
        # `a or b` on the true edge / `a and b` on the false edge: only the compound itself is known
        yield t, (holds_on == "t")
        return
    for pos, edge in atoms(t):
        yield pos, (edge == holds_on)


def guard_edges(cfg, atom_pred: Callable[[ast.AST], bool], want: bool = True) -> list:
    """Edges (test_id, label) of the CFG on which an atom matching `atom_pred` is known to be `want` (True: holds)."""
    out = []
    for n in cfg.nodes:
        if n.kind != "test" or n.ast is None:
            continue
        for lab in ("t", "f"):
            for pos, truth in conjuncts(n.ast, lab):
                if truth == want and atom_pred(pos):
                    out.append((n.id, lab))
    return out


def reachable_without(cfg, targets: Iterable[int], edges: Iterable[tuple]) -> Optional[list]:
    """A path entry -> target that takes none of `edges` (None if every path takes one)."""
    targets = [t for t in targets]
    if not targets:
        return None
    return cfg.path(cfg.entry, targets, avoid_edges=set(edges))


def other(lab: str) -> str:
    return "f" if lab == "t" else "t"


# ---------------------------------------------------------------- expression expansion
def module_constants(mod) -> dict:
    out = {}
    for st in mod.tree.body:
        if isinstance(st, ast.Assign) and len(st.targets) == 1 and isinstance(st.targets[0], ast.Name):
            out[st.targets[0].id] = st.value
        elif isinstance(st, ast.AnnAssign) and isinstance(st.target, ast.Name) and st.value is not None:
            out[st.target.id] = st.value
    return out


def single_return(fn: ast.AST) -> Optional[ast.AST]:
    """The expression of a function whose body is (docstring +) `return <expr>` (after inlining its own temporaries
    this is a pure expression of its parameters)."""
    body = [st for st in fn.body if not (isinstance(st, ast.Expr) and isinstance(st.value, ast.Constant))]
    if len(body) == 1 and isinstance(body[0], ast.Return) and body[0].value is not None:
        return body[0].value
    return None


def expand(ix, fi, e: ast.AST, defs=None, depth: int = 4) -> ast.AST:
    """`e` with (1) single-assignment local temporaries inlined, (2) names of module-level literal constants replaced
    by the literal, (3) calls of same-module (or nested) single-return helpers replaced by the helper's expression
    with arguments substituted.  Returns a fresh tree."""
    from .lib import defs_of
    defs = defs or defs_of(fi)
    mod = fi.module
    consts = module_constants(mod)
    helpers = {}
    for g in mod.all_functions:
        if isinstance(g.node, (ast.FunctionDef,)) and g is not fi:
            r = single_return(g.node)
            if r is not None:
                helpers.setdefault(g.name, g.node)
    params = set(defs.params)

    def go(x, d):
        x = defs.inline(x)

        class T(ast.NodeTransformer):
            def visit_Name(self, n):
                if isinstance(n.ctx, ast.Load) and n.id in consts and n.id not in params and n.id not in defs.defs and d > 0 \
                        and (isinstance(consts[n.id], ast.Constant) or (isinstance(consts[n.id], ast.Tuple) and all(isinstance(e, ast.Constant) for e in consts[n.id].elts))):
                    return clone(consts[n.id])
                return n

            def visit_Call(self, c):
                self.generic_visit(c)
                name = c.func.id if isinstance(c.func, ast.Name) else (c.func.attr if isinstance(c.func, ast.Attribute) and isinstance(c.func.value, ast.Name) and c.func.value.id in ("self", "cls") else None)
                if name in helpers and d > 0 and all(k.arg for k in c.keywords) and not any(isinstance(a, ast.Starred) for a in c.args):
                    h = helpers[name]
                    ps = [a.arg for a in h.args.args]
                    if ps and ps[0] in ("self", "cls") and isinstance(c.func, ast.Attribute):
                        ps = ps[1:]
                    sub = dict(zip(ps, c.args))
                    sub.update({k.arg: k.value for k in c.keywords if k.arg in ps})
                    if len(c.args) <= len(ps) and set(sub) == set(ps) and not h.args.vararg and not h.args.kwarg and not h.args.kwonlyargs:
                        body = clone(single_return(h))

                        class S(ast.NodeTransformer):
                            def visit_Name(self, n):
                                if isinstance(n.ctx, ast.Load) and n.id in sub:
                                    return clone(sub[n.id])
                                return n
                        return S().visit(body)
                return c
        return T().visit(x)

    out = e
    for i in range(depth):
        new = go(out, depth - i)
        if norm(new) == norm(out):
            break
        out = new
    return out


def xnorm(ix, fi, e, defs=None) -> str:
    return norm(expand(ix, fi, e, defs))


# ---------------------------------------------------------------- structural matching with wildcards
def match(pattern: str, e: ast.AST, wild=None) -> Optional[dict]:
    """Match expression `e` against a pattern written as Python source in which the names in `wild` match any
    sub-expression (the same wildcard must match the same text everywhere).  Returns the bindings or None."""
    p = ast.parse(pattern, mode="eval").body if isinstance(pattern, str) else pattern
    b = {}

    def is_wild(p):
        return isinstance(p, ast.Name) and (p.id in wild if wild is not None else (len(p.id) >= 2 and p.id[0] == "_" and (p.id[1].isupper() or p.id[1].isdigit())))

    def go(p, x):
        if is_wild(p):
            t = norm(x)
            if p.id in b and b[p.id] != t:
                return False
            b[p.id] = t
            return True
        if type(p) is not type(x):
            return False
        if isinstance(p, ast.Call):
            # `*_R` as the last positional pattern matches any remaining positionals; `**_K` any remaining keywords;
            # keywords are matched by name, not by position
            if not go(p.func, x.func):
                return False
            pa, xa = list(p.args), list(x.args)
            rest = bool(pa) and isinstance(pa[-1], ast.Starred) and is_wild(pa[-1].value)
            if rest:
                pa = pa[:-1]
            if len(xa) < len(pa) or (not rest and len(xa) != len(pa)):
                return False
            if not all(go(a, c) for a, c in zip(pa, xa)):
                return False
            pk = [k for k in p.keywords if not (k.arg is None and is_wild(k.value))]
            restk = len(pk) != len(p.keywords)
            xk = {k.arg: k.value for k in x.keywords}
            if any(k.arg not in xk for k in pk) or (not restk and (len(xk) != len(pk) or len(x.keywords) != len(pk))):
                return False
            return all(go(k.value, xk[k.arg]) for k in pk)
        for f in p._fields:
            if f in ("ctx",):
                continue
            pv, xv = getattr(p, f, None), getattr(x, f, None)
            if isinstance(pv, list):
                if not isinstance(xv, list) or len(pv) != len(xv):
                    return False
                for a, c in zip(pv, xv):
                    if isinstance(a, ast.AST):
                        if not go(a, c):
                            return False
                    elif a != c:
                        return False
            elif isinstance(pv, ast.AST):
                if not isinstance(xv, ast.AST) or not go(pv, xv):
                    return False
            elif pv != xv:
                return False
        return True
    return b if go(p, e) else None


def returns_of(fn: ast.AST) -> list:
    return [r for r in walk_local(fn) if isinstance(r, ast.Return) and r.value is not None]


# ---------------------------------------------------------------- flow-aware inlining (lexically dominating definitions)
def _block_and_index(node):
    """(statement list, index) of the innermost statement containing `node`, walking up through expressions."""
    cur = node
    while cur is not None:
        par = getattr(cur, "_parent", None)
        if par is None:
            return None
        for fld in ("body", "orelse", "finalbody"):
            lst = getattr(par, fld, None)
            if isinstance(lst, list) and any(x is cur for x in lst):
                return par, lst, [i for i, x in enumerate(lst) if x is cur][0]
        if isinstance(par, ast.Try):
            for h in par.handlers:
                if h is cur:
                    return par, par.handlers, par.handlers.index(h)
        cur = par
    return None


def dominating_def(name_node: ast.Name, stop_at: ast.AST) -> Optional[ast.AST]:
    """The value of the assignment `name = value` that lexically dominates this use: the closest earlier sibling
    statement (at this or an enclosing block level, inside function `stop_at`) that assigns the name unconditionally,
    provided no statement in between (at those levels) may reassign it.  None if unknown."""
    name = name_node.id
    cur = name_node
    while True:
        loc = _block_and_index(cur)
        if loc is None:
            return None
        par, lst, idx = loc
        for j in range(idx - 1, -1, -1):
            st = lst[j]
            if isinstance(st, ast.Assign) and len(st.targets) == 1 and isinstance(st.targets[0], ast.Name) and st.targets[0].id == name:
                return st.value
            if isinstance(st, ast.AnnAssign) and isinstance(st.target, ast.Name) and st.target.id == name and st.value is not None:
                return st.value
            if isinstance(st, ast.Assign) and len(st.targets) == 1 and isinstance(st.targets[0], (ast.Tuple, ast.List)):
                for i, t in enumerate(st.targets[0].elts):
                    if isinstance(t, ast.Name) and t.id == name:
                        if isinstance(st.value, (ast.Tuple, ast.List)) and len(st.value.elts) == len(st.targets[0].elts):
                            return st.value.elts[i]
                        return ast.Subscript(value=st.value, slice=ast.Constant(value=i), ctx=ast.Load())
            # any other statement that (re)binds the name anywhere inside makes the answer unknown
            for x in ast.walk(st):
                if isinstance(x, ast.Name) and x.id == name and isinstance(x.ctx, (ast.Store, ast.Del)):
                    return None
        if par is stop_at or isinstance(par, (ast.FunctionDef, ast.AsyncFunctionDef, ast.Lambda)):
            return None
        if isinstance(par, (ast.For, ast.While, ast.AsyncFor)):
            # inside a loop a later statement of the body may rebind the name before the next iteration
            for x in ast.walk(par):
                if isinstance(x, ast.Name) and x.id == name and isinstance(x.ctx, (ast.Store, ast.Del)) and x is not name_node:
                    return None
        cur = par


def resolve(e: ast.AST, fn: ast.AST, depth: int = 6) -> ast.AST:
    """Fresh copy of expression `e` (a node of the original tree of function `fn`) in which every local name is
    replaced by the value of its lexically dominating definition, transitively."""
    def go(x, d):
        if isinstance(x, ast.Name) and isinstance(x.ctx, ast.Load) and d > 0:
            v = dominating_def(x, fn)
            if v is not None and not isinstance(v, (ast.Lambda, ast.Yield, ast.Await)):
                return go(v, d - 1)
            return ast.Name(id=x.id, ctx=ast.Load())
        if isinstance(x, ast.AST):
            new = x.__class__()
            for f in x._fields:
                v = getattr(x, f, None)
                if isinstance(v, list):
                    setattr(new, f, [go(i, d) if isinstance(i, ast.AST) else i for i in v])
                elif isinstance(v, ast.AST):
                    setattr(new, f, go(v, d))
                else:
                    setattr(new, f, v)
            for a in ("lineno", "col_offset", "end_lineno", "end_col_offset"):
                if hasattr(x, a):
                    setattr(new, a, getattr(x, a))
            return new
        return x
    return go(e, depth)


def rnorm(e: ast.AST, fn: ast.AST, depth: int = 6) -> str:
    return norm(resolve(e, fn, depth))


def deep(ix, fi, e: ast.AST, fn: ast.AST) -> ast.AST:
    """`e` with temporaries resolved (flow-aware, inside `fn`) and then module constants / single-return helpers
    of the module expanded: the form in which a rule pattern is matched."""
    from .flow import Defs
    return expand(ix, fi, resolve(e, fn), defs=Defs(fn))


# ---------------------------------------------------------------- lexical condition context
def _terminates(stmts) -> bool:
    if not stmts:
        return False
    last = stmts[-1]
    if isinstance(last, (ast.Return, ast.Raise, ast.Continue, ast.Break)):
        return True
    if isinstance(last, ast.If):
        return _terminates(last.body) and _terminates(last.orelse)
    if isinstance(last, ast.Try):
        if _terminates(last.finalbody):
            return True
        return (_terminates(last.orelse) if last.orelse else _terminates(last.body)) and all(_terminates(h.body) for h in last.handlers)
    if isinstance(last, (ast.With, ast.AsyncWith)):
        return _terminates(last.body)
    return False


def facts_at(node: ast.AST, fn: ast.AST) -> list:
    """[(positive_atom, truth)] known to hold whenever `node` is evaluated, from the enclosing if/elif/else, conditional
    expressions, `and`/`or` short-circuits and from earlier sibling `if c: <return/raise/continue>` guards."""
    out = []
    cur = node
    while cur is not None and cur is not fn:
        par = getattr(cur, "_parent", None)
        if par is None:
            break
        if isinstance(par, (ast.If, ast.While)):
            if any(x is cur for x in par.body):
                out += list(conjuncts(par.test, "t"))
            elif any(x is cur for x in par.orelse) and isinstance(par, ast.If):
                out += list(conjuncts(par.test, "f"))
        elif isinstance(par, ast.IfExp):
            if cur is par.body:
                out += list(conjuncts(par.test, "t"))
            elif cur is par.orelse:
                out += list(conjuncts(par.test, "f"))
        elif isinstance(par, ast.BoolOp):
            idx = [i for i, v in enumerate(par.values) if v is cur]
            if idx:
                for v in par.values[:idx[0]]:
                    out += list(conjuncts(v, "t" if isinstance(par.op, ast.And) else "f"))
        elif isinstance(par, ast.comprehension) and any(i is cur for i in par.ifs):
            pass
        # element of a comprehension guarded by its ifs
        if isinstance(par, (ast.ListComp, ast.SetComp, ast.GeneratorExp, ast.DictComp)) and (cur is getattr(par, "elt", None) or cur is getattr(par, "key", None) or cur is getattr(par, "value", None)):
            for g in par.generators:
                for i in g.ifs:
                    out += list(conjuncts(i, "t"))
        # earlier sibling guards that terminate
        for fld in ("body", "orelse", "finalbody"):
            lst = getattr(par, fld, None)
            if isinstance(lst, list) and any(x is cur for x in lst):
                idx = [i for i, x in enumerate(lst) if x is cur][0]
                for st in lst[:idx]:
                    if isinstance(st, ast.If) and _terminates(st.body) and not st.orelse:
                        out += list(conjuncts(st.test, "f"))
                    elif isinstance(st, ast.If) and st.orelse and _terminates(st.orelse) and not _terminates(st.body):
                        out += list(conjuncts(st.test, "t"))
                    elif isinstance(st, ast.Assert):
                        out += list(conjuncts(st.test, "t"))
        cur = par
    return out


def holds_at(node, fn, atom_pred, truth=True) -> bool:
    return any(t == truth and atom_pred(a) for a, t in facts_at(node, fn))


def iterates_over(node: ast.AST, fn: ast.AST, name: str) -> bool:
    """node lies in a for loop / comprehension whose iterable mentions `name`."""
    cur = node
    while cur is not None and cur is not fn:
        par = getattr(cur, "_parent", None)
        if isinstance(par, (ast.For, ast.AsyncFor)) and any(isinstance(x, ast.Name) and x.id == name for x in ast.walk(par.iter)):
            return True
        if isinstance(par, (ast.ListComp, ast.SetComp, ast.GeneratorExp, ast.DictComp)):
            if any(isinstance(x, ast.Name) and x.id == name for g in par.generators for x in ast.walk(g.iter)):
                return True
        cur = par
    return False


# ---------------------------------------------------------------- seeing through extracted helpers
def _set_parents(tree):
    for p in ast.walk(tree):
        for c in ast.iter_child_nodes(p):
            c._parent = p
    return tree


def _subst(node, mapping):
    class S(ast.NodeTransformer):
        def visit_Name(self, n):
            if n.id in mapping and isinstance(n.ctx, ast.Load):
                return clone(mapping[n.id])
            return n
    return S().visit(node)


def _callee(ix, fi, call):
    """FuncInfo of a *private* helper called as `self._h(...)`, `cls._h(...)` or `_h(...)` (same class / same module)."""
    f = call.func
    name = None
    if isinstance(f, ast.Attribute) and isinstance(f.value, ast.Name) and f.value.id in ("self", "cls"):
        name = f.attr
        if fi.cls is not None:
            for ci in [fi.cls] + [c for c in getattr(fi.cls, "mro_infos", [])]:
                if name in ci.methods:
                    return ci.methods[name], True
        for g in fi.module.all_functions:
            if g.name == name and g.cls is not None:
                return g, True
    elif isinstance(f, ast.Name):
        name = f.id
        for g in fi.module.all_functions:
            if g.name == name and g.cls is None and g is not fi:
                return g, False
    return None, False


def inline_helpers(ix, fi, depth: int = 2, skip=(), tail: bool = True):
    """A fresh FunctionDef for `fi` in which expression statements that call a private, value-less helper of the same
    class/module (`self._h(a, b)` / `_h(a, b)`, name starting with '_', no `return <value>`) are replaced by the
    helper's body with parameters substituted.  Parents are set on the result so `resolve`/`facts_at` work on it.
    Used so that an extracted helper does not hide the statements a rule is looking for."""
    fn = _set_parents(clone(fi.node) if False else ast.parse(ast.unparse(fi.node)).body[0])

    def expandable(call, allow_value=False):
        g, is_method = _callee(ix, fi, call)
        if g is None or not g.name.startswith("_") or g.name.startswith("__") or not isinstance(g.node, ast.FunctionDef) or g.name in skip:
            return None
        if not allow_value and any(isinstance(r, ast.Return) and r.value is not None and not (isinstance(r.value, ast.Constant) and r.value.value is None) for r in walk_local(g.node)):
            return None
        ps = [a.arg for a in g.node.args.args]
        if is_method and ps and ps[0] in ("self", "cls"):
            ps = ps[1:]
        if len(call.args) > len(ps) and not g.node.args.vararg:
            return None
        mapping = {}
        pos = [a for a in call.args if not isinstance(a, ast.Starred)]
        for p_, a in zip(ps, pos):
            mapping[p_] = a
        for k in call.keywords:
            if k.arg:
                mapping[k.arg] = k.value
        body = [st for st in ast.parse(ast.unparse(g.node)).body[0].body if not (isinstance(st, ast.Expr) and isinstance(st.value, ast.Constant))]
        # *args / **kwargs of the helper: forwarded star arguments keep their meaning, absent ones disappear
        va, kwa = (g.node.args.vararg.arg if g.node.args.vararg else None), (g.node.args.kwarg.arg if g.node.args.kwarg else None)
        star = [a.value for a in call.args if isinstance(a, ast.Starred)]
        dstar = [k.value for k in call.keywords if k.arg is None]
        extra_pos = pos[len(ps):]

        class V(ast.NodeTransformer):
            def visit_Call(self, c):
                self.generic_visit(c)
                na = []
                for a in c.args:
                    if isinstance(a, ast.Starred) and isinstance(a.value, ast.Name) and a.value.id == va:
                        na.extend(clone(x) for x in extra_pos)
                        na.extend(ast.Starred(value=clone(x), ctx=ast.Load()) for x in star)
                    else:
                        na.append(a)
                c.args = na
                nk = []
                for k in c.keywords:
                    if k.arg is None and isinstance(k.value, ast.Name) and k.value.id == kwa:
                        nk.extend(ast.keyword(arg=None, value=clone(x)) for x in dstar)
                    else:
                        nk.append(k)
                c.keywords = nk
                return c
        # locals of the helper that collide with names of the caller are renamed (no capture)
        hp = set(ps) | ({va} if va else set()) | ({kwa} if kwa else set())
        hl = {x.id for st in body for x in ast.walk(st) if isinstance(x, ast.Name) and isinstance(x.ctx, (ast.Store, ast.Del))} - hp
        caller_names = {x.id for x in ast.walk(fn) if isinstance(x, ast.Name)} | {a.arg for a in ast.walk(fn) if isinstance(a, ast.arg)}
        ren = {n_: n_ + "__" + g.name.strip("_") for n_ in hl if n_ in caller_names}
        if ren:
            for st in body:
                for x in ast.walk(st):
                    if isinstance(x, ast.Name) and x.id in ren:
                        x.id = ren[x.id]
        return [V().visit(_subst(st, mapping)) for st in body]

    def single_final_return(stmts):
        """(statements before, returned expression) when the only `return <value>` of the helper body is its last
        top-level statement; None otherwise."""
        if not stmts or not isinstance(stmts[-1], ast.Return) or stmts[-1].value is None:
            return None
        if any(isinstance(r, ast.Return) for st in stmts[:-1] for r in walk_local(st)):
            return None
        return stmts[:-1], stmts[-1].value

    for _ in range(depth):
        changed = False
        for node in list(ast.walk(fn)):
            for fld in ("body", "orelse", "finalbody"):
                lst = getattr(node, fld, None)
                if not isinstance(lst, list):
                    continue
                new = []
                for st in lst:
                    if isinstance(st, ast.Return) and isinstance(st.value, ast.Call) and tail:
                        rep = expandable(st.value, allow_value=True)       # `return self._helper(...)`: a tail call
                        if rep is not None:
                            for r in rep:
                                ast.copy_location(r, st)
                                for x in ast.walk(r):
                                    if hasattr(x, "lineno"):
                                        x.lineno = st.lineno
                            new.extend(rep)
                            changed = True
                            continue
                    if isinstance(st, (ast.Assign, ast.AnnAssign)) and isinstance(getattr(st, "value", None), ast.Call):
                        rep = expandable(st.value, allow_value=True)       # `x = self._helper(...)`, helper ends in its only return
                        sfr = single_final_return(rep) if rep is not None else None
                        if sfr is not None:
                            before, expr = sfr
                            st.value = expr
                            for r in before:
                                ast.copy_location(r, st)
                                for x in ast.walk(r):
                                    if hasattr(x, "lineno"):
                                        x.lineno = st.lineno
                            new.extend(before)
                            new.append(st)
                            changed = True
                            continue
                    if isinstance(st, ast.Expr) and isinstance(st.value, ast.Call):
                        rep = expandable(st.value)
                        if rep is not None:
                            for r in rep:
                                ast.copy_location(r, st)
                                for x in ast.walk(r):
                                    if hasattr(x, "lineno"):
                                        x.lineno = st.lineno
                            new.extend(rep)
                            changed = True
                            continue
                    new.append(st)
                setattr(node, fld, new)
        if not changed:
            break
    # calls of private single-return-expression helpers in expression position (any number of call sites)
    class E(ast.NodeTransformer):
        def visit_Call(self, c):
            self.generic_visit(c)
            g, is_method = _callee(ix, fi, c)
            if g is None or not g.name.startswith("_") or g.name.startswith("__") or not isinstance(g.node, ast.FunctionDef) or g.name in skip or g.node.decorator_list:
                return c
            r = single_return(g.node)
            if r is None or any(isinstance(a, ast.Starred) for a in c.args) or any(k.arg is None for k in c.keywords):
                return c
            ps = [a.arg for a in g.node.args.args]
            if is_method and ps and ps[0] in ("self", "cls"):
                ps = ps[1:]
            sub = dict(zip(ps, c.args))
            sub.update({k.arg: k.value for k in c.keywords if k.arg in ps})
            defaults = g.node.args.defaults
            for p_, d_ in zip(ps[len(ps) - len(defaults):], defaults):
                sub.setdefault(p_, d_)
            if len(c.args) > len(ps) or set(sub) != set(ps) or g.node.args.vararg or g.node.args.kwarg or g.node.args.kwonlyargs:
                return c
            # a non-trivial argument may only be substituted for a parameter that is read at most once
            body = clone(r)
            uses = {}
            for x in ast.walk(body):
                if isinstance(x, ast.Name) and x.id in sub:
                    uses[x.id] = uses.get(x.id, 0) + 1
            if any(n_ > 1 and not isinstance(sub[p_], (ast.Name, ast.Constant, ast.Attribute)) for p_, n_ in uses.items()):
                return c
            out = _subst(body, sub)
            for x in ast.walk(out):
                if hasattr(x, "lineno"):
                    x.lineno = getattr(c, "lineno", 1)
            return ast.copy_location(out, c)
    for _ in range(depth):
        before = ast.dump(fn)
        fn = E().visit(fn)
        if ast.dump(fn) == before:
            break
    ast.fix_missing_locations(fn)
    return _set_parents(fn)


def dead(node, fn) -> bool:
    """node sits under a constant condition that cannot hold (`if False:`, `elif 0:`, else-branch of `if True:`)."""
    return any(isinstance(a, ast.Constant) and bool(a.value) != t for a, t in facts_at(node, fn))


def unalias(e: ast.AST, fn: ast.AST, depth: int = 4) -> ast.AST:
    """If `e` is a bare local name, the expression it was last assigned (transitively for names); otherwise `e`."""
    while isinstance(e, ast.Name) and depth > 0:
        v = dominating_def(e, fn)
        if v is None:
            break
        e, depth = v, depth - 1
    return e


# ---------------------------------------------------------------- filtered copies of mappings
def entry_facts(fn: ast.AST, expr: ast.AST, defs=None):
    """For an expression that denotes a mapping built from another mapping, either by a dict comprehension
    `{k: v for k, v in SRC.items() if COND}` or by a loop `for k, v in SRC.items(): if COND: out[k] = v` filling a name
    that starts as `{}`/`dict()`: the facts known about every stored entry, with the key and value variables renamed
    to K and V: a set of (atom text, truth), plus the source expression text.  None if the shape is not recognised."""
    def rename(node, k, v):
        class R(ast.NodeTransformer):
            def visit_Name(self, n):
                if n.id == k:
                    return ast.Name(id="K", ctx=n.ctx)
                if n.id == v:
                    return ast.Name(id="V", ctx=n.ctx)
                return n
        return R().visit(clone(node))

    e = expr
    if isinstance(e, ast.Name):
        # follow a single dominating definition, or find the fill loop
        tgt = e.id
        fills = [a for a in ast.walk(fn) if isinstance(a, ast.Assign) and isinstance(a.targets[0], ast.Subscript) and isinstance(a.targets[0].value, ast.Name) and a.targets[0].value.id == tgt]
        inits = [a for a in ast.walk(fn) if isinstance(a, (ast.Assign, ast.AnnAssign)) and isinstance((a.targets[0] if isinstance(a, ast.Assign) else a.target), ast.Name)
                 and (a.targets[0] if isinstance(a, ast.Assign) else a.target).id == tgt and a.value is not None]
        if len(inits) == 1 and not fills:
            return entry_facts(fn, inits[0].value, defs)
        if fills and all(norm(i.value) in ("{}", "dict()") for i in inits):
            out, src = None, None
            for a in fills:
                loop = getattr(a, "_parent", None)
                while loop is not None and not isinstance(loop, ast.For):
                    loop = getattr(loop, "_parent", None)
                if loop is None or not (isinstance(loop.target, ast.Tuple) and len(loop.target.elts) == 2):
                    return None
                k, v = norm(loop.target.elts[0]), norm(loop.target.elts[1])
                if norm(a.targets[0].slice) != k or norm(a.value) != v:
                    return None
                facts = set()
                for at, truth in facts_at(a, loop):
                    facts.add((norm(rename(at, k, v)), truth))
                out = facts if out is None else (out & facts)
                src = norm(loop.iter)
            return out, src
        return None
    if isinstance(e, ast.Call) and len(e.args) == 1 and not e.keywords and isinstance(e.func, (ast.Name, ast.Attribute)) and norm(e.func) in ("dict", "self.UnitsContainer", "UnitsContainer"):
        return entry_facts(fn, e.args[0], defs)
    if isinstance(e, ast.DictComp) and len(e.generators) == 1:
        g = e.generators[0]
        if not (isinstance(g.target, ast.Tuple) and len(g.target.elts) == 2):
            return None
        k, v = norm(g.target.elts[0]), norm(g.target.elts[1])
        if norm(e.key) != k or norm(e.value) != v:
            return None
        facts = set()
        for i in g.ifs:
            for at, truth in conjuncts(i, "t"):
                facts.add((norm(rename(at, k, v)), truth))
        return facts, norm(g.iter)
    return None
