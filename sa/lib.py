"""Shared rule primitives built on index / cfg / flow."""
from __future__ import annotations

import ast
from typing import Callable, Iterable, Optional

from .cfg import CFG, Node
from .flow import Defs, _own_calls, _walk_no_defs, call_name, dotted, norm, writes_in
from .index import AnalysisError, FuncInfo, Index, Resolver, walk_local

_cfg_cache: dict = {}
_defs_cache: dict = {}


def cfg_of(fi: FuncInfo) -> CFG:
    if fi not in _cfg_cache:
        _cfg_cache[fi] = CFG(fi.node)
    return _cfg_cache[fi]


def defs_of(fi: FuncInfo) -> Defs:
    if fi not in _defs_cache:
        _defs_cache[fi] = Defs(fi.node)
    return _defs_cache[fi]


def own_exprs(n: Node) -> list:
    """The expressions evaluated *at* a CFG node (not in nested bodies)."""
    a = n.ast
    if a is None:
        return []
    if n.kind in ("test", "for"):
        return [a]
    if n.kind == "with":
        return [it.context_expr for it in a.items]
    if n.kind == "except":
        return [a.type] if a.type is not None else []
    if isinstance(a, (ast.FunctionDef, ast.AsyncFunctionDef, ast.ClassDef)):
        return []
    return [a]


def node_has(n: Node, pred: Callable[[ast.AST], bool]) -> bool:
    for e in own_exprs(n):
        for sub in _walk_no_defs(e):
            if pred(sub):
                return True
    return False


def nodes_with(cfg: CFG, pred: Callable[[ast.AST], bool], kinds=None) -> list:
    return [n.id for n in cfg.nodes if (kinds is None or n.kind in kinds) and node_has(n, pred)]


def nodes_calling(cfg: CFG, *names: str) -> list:
    return nodes_with(cfg, lambda x: isinstance(x, ast.Call) and call_name(x) in names)


def is_super_call(c: ast.AST, name: str = None) -> bool:
    return (isinstance(c, ast.Call) and isinstance(c.func, ast.Attribute)
            and isinstance(c.func.value, ast.Call) and isinstance(c.func.value.func, ast.Name)
            and c.func.value.func.id == "super" and (name is None or c.func.attr == name))


def return_nodes(cfg: CFG) -> list:
    return [n.id for n in cfg.nodes if isinstance(n.ast, ast.Return) and n.kind == "stmt"]


def raise_nodes(cfg: CFG) -> list:
    return [n.id for n in cfg.nodes if isinstance(n.ast, ast.Raise) and n.kind == "stmt"]


def live(cfg: CFG, ids: Iterable[int]) -> list:
    r = cfg.reachable_nodes()
    return [i for i in ids if i in r]


def witness(cfg: CFG, path: Optional[list]) -> Optional[list]:
    return cfg.describe_path(path) if path else None


def undominated(cfg: CFG, targets: Iterable[int], gates: Iterable[int], avoid_edges=()) -> Optional[list]:
    """A path entry->target that passes no gate (None if every path passes a gate)."""
    targets = live(cfg, targets)
    if not targets:
        return None
    return cfg.all_paths_pass(cfg.entry, targets, gates, avoid_edges)


def edge_leads_only_to_raise(cfg: CFG, test: int, label: str, also_forbid: Iterable[int] = ()) -> Optional[list]:
    """From edge (test,label): normal exit (and forbidden nodes) must be unreachable.
    Returns a witness path if reachable, None if the edge only leads to an exceptional exit."""
    succs = [v for (v, lab) in cfg.succ[test] if lab == label]
    if not succs:
        return [test]
    goals = {cfg.exit} | set(also_forbid)
    for s in succs:
        if s in goals:
            return [test, s]
        p = cfg.path(s, goals)
        if p:
            return [test] + p
    return None


def edge_successors(cfg: CFG, test: int, label: str) -> list:
    return [v for (v, lab) in cfg.succ[test] if lab == label]


def compare_parts(e: ast.AST):
    """(op_name, left, right) for a single comparison, handling `not a == b`."""
    neg = False
    while isinstance(e, ast.UnaryOp) and isinstance(e.op, ast.Not):
        neg = not neg
        e = e.operand
    if isinstance(e, ast.Compare) and len(e.ops) == 1:
        op = type(e.ops[0]).__name__
        if neg:
            op = {"Eq": "NotEq", "NotEq": "Eq", "Is": "IsNot", "IsNot": "Is", "In": "NotIn", "NotIn": "In",
                  "Lt": "GtE", "GtE": "Lt", "Gt": "LtE", "LtE": "Gt"}.get(op, "?" + op)
        return op, e.left, e.comparators[0]
    return None


def differs_edge(op: str) -> Optional[str]:
    """Edge label of a test on which the two compared values are *different*."""
    if op in ("NotEq", "IsNot"):
        return "t"
    if op in ("Eq", "Is"):
        return "f"
    return None


# ------------------------------------------------------------------ memo idioms
class MemoSite:
    def __init__(self, fi, table_expr, lookup_key, lookup_node, kind):
        self.fi = fi
        self.table = table_expr  # normalised expression text of the table (after alias resolution)
        self.lookup_key = lookup_key  # ast
        self.lookup_node = lookup_node
        self.kind = kind
        self.stores = []  # [(key_ast, value_ast, stmt)]


def resolve_alias(defs: Defs, e: ast.AST) -> str:
    """Normalised text of e with single-assignment local aliases expanded."""
    return norm(defs.inline(e))


def find_memo_sites(fi: FuncInfo) -> list:
    """Dict memo idioms in one function:
       try: return T[K] / except KeyError      |  if K in T: return T[K]   |  T.get(K)
       and stores T[K2] = V.  Tables are compared after alias expansion."""
    fn = fi.node
    defs = defs_of(fi)
    sites = {}

    def add_lookup(tbl, key, node, kind):
        t = resolve_alias(defs, tbl)
        sites.setdefault(t, MemoSite(fi, t, key, node, kind))

    for n in walk_local(fn):
        if isinstance(n, ast.Try):
            catches_key = any(
                h.type is not None and any(
                    (isinstance(x, ast.Name) and x.id == "KeyError")
                    for x in (h.type.elts if isinstance(h.type, ast.Tuple) else [h.type]))
                for h in n.handlers)
            if catches_key:
                for st in n.body:
                    for sub in _walk_no_defs(st):
                        if isinstance(sub, ast.Subscript) and isinstance(sub.ctx, ast.Load) and isinstance(st, (ast.Return, ast.Assign)):
                            add_lookup(sub.value, sub.slice, n, "try-keyerror")
        elif isinstance(n, ast.If):
            for sub in _walk_no_defs(n.test):
                if isinstance(sub, ast.Compare) and len(sub.ops) == 1 and isinstance(sub.ops[0], ast.In):
                    tbl = sub.comparators[0]
                    # the body must read tbl[key]
                    for st in n.body:
                        for s2 in _walk_no_defs(st):
                            if (isinstance(s2, ast.Subscript) and isinstance(s2.ctx, ast.Load)
                                    and resolve_alias(defs, s2.value) == resolve_alias(defs, tbl)):
                                add_lookup(tbl, sub.left, n, "in-test")
    for n in walk_local(fn):
        if isinstance(n, ast.Assign):
            for t in n.targets:
                if isinstance(t, ast.Subscript):
                    tt = resolve_alias(defs, t.value)
                    if tt in sites:
                        sites[tt].stores.append((t.slice, n.value, n))
    return list(sites.values())


def names_in(e: ast.AST) -> set:
    return {n.id for n in _walk_no_defs(e) if isinstance(n, ast.Name)}


def reassigned_names(fi: FuncInfo, names: Iterable[str]) -> list:
    """Names among `names` that are (re)bound inside the function body."""
    d = defs_of(fi)
    # a parameter bound again, or a local bound more than once, can change between two uses; a single-assignment
    # local is just a name for its value
    return [n for n in names if n in d.defs and (n in d.params or len(d.defs[n]) > 1 or d.defs[n][0][1] != "assign")]


def require(cond, msg):
    if not cond:
        raise AnalysisError(msg)


def get_func(ix: Index, mod: str, qual: str) -> FuncInfo:
    return ix.func(mod, qual)


def stmt_text(n: ast.AST) -> str:
    return norm(n).splitlines()[0][:120]


# ---------------------------------------------------------------- polarity-insensitive guards
def guarded(ck, fi, cfg, targets, atom_pred, rule, key, ok_msg, bad_msg, require_raise=True, raise_msg=None):
    """Every live target node is reachable only over an edge on which an atom matching `atom_pred` holds (whatever
    the spelling: `if a: raise` / `if not a: ... else: raise`, `x in t` / `x not in t`, conjunctions), and - when
    `require_raise` - the opposite edge of each such test leads only to raise.  Emits obligations; returns #targets."""
    from . import shape
    safe = shape.guard_edges(cfg, atom_pred, want=True)
    tl = live(cfg, targets)
    for t in tl:
        p = shape.reachable_without(cfg, [t], safe)
        ck.check(bool(safe) and p is None, rule, key, fi.loc(cfg.nodes[t].ast), ok_msg, bad_msg, witness(cfg, p))
    if require_raise:
        for (g, lab) in sorted(set(safe)):
            # only guards that actually protect a target matter
            if not any(t in cfg.reach([v for (v, l2) in cfg.succ[g] if l2 == lab]) for t in tl):
                continue
            p = edge_leads_only_to_raise(cfg, g, "f" if lab == "t" else "t", also_forbid=tl)
            ck.check(p is None, rule, key + "|failing-side-raises", fi.loc(cfg.nodes[g].ast), "the failing side of the guard only raises", raise_msg or (bad_msg + " (the failing side of the guard does not raise)"), witness(cfg, p))
    return len(tl)


def roots_with_closure(fi: FuncInfo, e: ast.AST) -> set:
    """Defs.roots of `e` in `fi`; names that are free in `fi` are followed into the enclosing functions (closures)."""
    out = set(defs_of(fi).roots(e))
    seen = set()
    cur = getattr(fi, "parent", None)
    while cur is not None and isinstance(getattr(cur, "node", None), (ast.FunctionDef, ast.AsyncFunctionDef)):
        dp = defs_of(cur)
        changed = True
        while changed:
            changed = False
            for nm in [r for r in out if r.isidentifier() and r not in seen and r in dp.defs]:
                seen.add(nm)
                out |= set(dp.roots(ast.Name(id=nm, ctx=ast.Load())))
                changed = True
        cur = getattr(cur, "parent", None)
    return out


class _Inlined:
    """A FuncInfo look-alike whose `node` has private helpers of the same class/module inlined (statement calls and tail
    calls), so that an extracted helper does not hide the statements a rule is looking for."""

    def __init__(self, fi, node):
        self._fi = fi
        self.node = node

    def __getattr__(self, name):
        return getattr(self._fi, name)

    def loc(self, node=None):
        return self._fi.loc(node) if node is None or hasattr(node, "lineno") else self._fi.loc()


def inlined(ix, fi, skip=()):
    from . import shape
    return _Inlined(fi, shape.inline_helpers(ix, fi, skip=skip))


_FIND_CACHE: dict = {}


def find(ix, fi, pattern: str, skip=(), inline: bool = True) -> list:
    """Nodes of function `fi` that match `pattern` (shape.match syntax: `_X` wildcards, `*_R` / `**_K` rest
    wildcards in calls) as written, after resolving local temporaries, or after expanding module constants and
    single-return helpers; value-less private helpers and tail calls are inlined first and dead branches
    (`if False:`) are ignored.  A rule that uses this is insensitive to the names of locals, to hoisted or inlined
    temporaries and to extracted helpers, and sensitive to the operation itself.  Returns [(node, bindings, fn)]."""
    from . import shape
    key = (id(fi), tuple(skip), inline)
    if key not in _FIND_CACHE:
        fn = shape.inline_helpers(ix, fi, skip=skip) if inline else shape._set_parents(ast.parse(ast.unparse(fi.node)).body[0])
        _FIND_CACHE[key] = fn
    fn = _FIND_CACHE[key]
    pat = ast.parse(pattern, mode="eval").body
    out = []
    for x in ast.walk(fn):
        if not isinstance(x, ast.expr) or isinstance(x, ast.Name):
            continue
        if type(x) is not type(pat) and not isinstance(x, ast.Call):
            continue
        b = None
        for form in (lambda: x, lambda: shape.resolve(x, fn), lambda: shape.deep(ix, fi, x, fn)):
            try:
                cand = form()
            except RecursionError:
                continue
            if type(cand) is type(pat):
                b = shape.match(pat, cand)
                if b is not None:
                    break
        if b is not None and not shape.dead(x, fn):
            out.append((x, b, fn))
    return out


def has(ix, fi, pattern: str, skip=(), at_least: int = 1) -> bool:
    return len(find(ix, fi, pattern, skip=skip)) >= at_least
