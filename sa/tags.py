"""G-TAG: path-sensitive abstract interpretation of Quantity methods over the unit-tag domain.

Every magnitude expression carries a symbolic tag "expressed in units U".  Along every
loop-free path of the analysed method the interpreter tracks tag(self._magnitude),
tag(self._units), tags of local variables and a set of path facts (same units, same
dimensionality, other is zero, self is multiplicative, ...), and emits obligations where
two magnitudes are combined additively / compared / floor-divided, at zero tests, at
constructors and at `return self` of in-place methods.  A violation is reported only when
both tags are *known and different*; unknown tags are counted, never reported.
"""
from __future__ import annotations

import ast

from .cfg import CFG
from .flow import call_name, dotted, norm
from .lib import cfg_of

MAX_PATHS = 4000

DIMLESS_TEXT = {"self.UnitsContainer()", "self.UnitsContainer({})", "UnitsContainer()", "UnitsContainer({})", "''", '""',
                "inst.UnitsContainer()", "self._REGISTRY.UnitsContainer()", "'dimensionless'"}


class State:
    def __init__(self):
        self.mag = "U_s"        # tag of self._magnitude
        self.units = "U_s"      # tag of self._units
        self.vars = {}          # name -> ("mag"|"units"|"qty"|"bare", tag)
        self.facts = set()
        self.other_units = "U_o"
        self.other_is_qty = None  # None unknown / True / False
        self.alias = {}

    def copy(self):
        s = State()
        s.mag, s.units, s.other_units, s.other_is_qty = self.mag, self.units, self.other_units, self.other_is_qty
        s.vars = dict(self.vars)
        s.facts = set(self.facts)
        s.alias = dict(self.alias)
        return s

    def canon(self, t):
        seen = set()
        while t in self.alias and t not in seen:
            seen.add(t)
            t = self.alias[t]
        # offset calculus: a magnitude converted to the delta_ counterpart of X's units is, by the
        # documented rules (checked row by row in C06), combined with / labelled as X
        if t.startswith("delta(") and "," in t:
            return self.canon(t[6:t.index(",")])
        return t


def _resolve_test(test, fn):
    from .shape import resolve
    try:
        return resolve(test, fn)
    except Exception:
        return test


class Tagger:
    def __init__(self, ck, fi, prop_rule="G-TAG", inplace=False, other_name="other"):
        self.ck = ck
        self.fi = fi
        self.rule = prop_rule
        self.inplace = inplace
        self.other = other_name
        self.qual = fi.qualname.split("::")[1]
        self.reported = set()
        self.n_obl = 0
        self.n_unknown = 0

    # ------------------------------------------------------------ obligations
    def _emit(self, ok, key, node, ok_msg, fail_msg):
        k = f"{self.qual}|{key}"
        self.n_obl += 1
        if ok:
            if (k, "ok") not in self.reported and (k, "bad") not in self.reported:
                self.reported.add((k, "ok"))
                self.ck.ok(self.rule, k, self.fi.loc(node), ok_msg)
        else:
            if (k, "bad") not in self.reported:
                self.reported.add((k, "bad"))
                self.ck.fail(self.rule, k, self.fi.loc(node), fail_msg)

    def known(self, t):
        return t is not None and not t.startswith("?") and not t.startswith("T:?")

    def same(self, st, a, b, node, what):
        """Obligation: magnitudes tagged a and b may be combined additively / compared."""
        a, b = st.canon(a), st.canon(b)
        text = norm(node).splitlines()[0][:90]
        key = f"{what}|{text}"
        if not self.known(a) or not self.known(b) or "PROD" in (a, b):
            self.n_unknown += 1
            return
        if a == b:
            self._emit(True, key, node, f"both operands in {a}", "")
            return
        if "BARE" in (a, b):
            o = a if b == "BARE" else b
            if o == "DIMLESS":
                self._emit(True, key, node, "dimensionless magnitude with a bare number", "")
                return
            if "ZERO_OTHER" in st.facts and (("MULT_SELF" in st.facts) or o.startswith(("ROOT(", "BASE(")) or what.startswith("additive")):
                self._emit(True, key, node, f"bare zero/NaN combined with magnitude in {o} (multiplicative units or additive identity)", "")
                return
            self._emit(False, key, node, "", f"`{text}` combines a magnitude expressed in {o} with a bare number without establishing that the quantity is dimensionless (converted to dimensionless) or the number is zero on multiplicative units")
            return
        self._emit(False, key, node, "", f"`{text}` combines a magnitude expressed in {a} with one expressed in {b} (a conversion to common units is missing or targets the wrong operand)")

    # ------------------------------------------------------------ tags of expressions
    def units_tag(self, st, e):
        s = norm(e)
        if s in DIMLESS_TEXT:
            return "DIMLESS"
        if s == "self._units" or s == "self" or s == "self.units" or s == "self.u":
            return st.units
        if s in (f"{self.other}._units", f"{self.other}.units", f"{self.other}.u", self.other) and st.other_is_qty is not False:
            return st.other_units
        if isinstance(e, ast.Name) and e.id in st.vars:
            k, t = st.vars[e.id]
            if k in ("units", "qty"):
                return t
        if isinstance(e, ast.Attribute) and e.attr in ("_units", "units", "u") and isinstance(e.value, ast.Name) and e.value.id in st.vars and st.vars[e.value.id][0] == "qty":
            return st.vars[e.value.id][1]
        if isinstance(e, ast.Call) and call_name(e) == "rename" and len(e.args) == 2:
            base = self.units_tag(st, e.func.value)
            return f"delta({base},{norm(e.args[0])})"
        if isinstance(e, ast.Call) and call_name(e) in ("to_units_container",) and e.args:
            return "T:" + norm(e.args[0])
        if isinstance(e, ast.BinOp):
            return "PRODUNITS"
        if isinstance(e, ast.Name):
            return "T:" + e.id
        return "T:?" + s

    def qty_tag(self, st, e):
        """(mag_tag, units_tag) of a quantity-valued expression, or None."""
        s = norm(e)
        if s == "self":
            return (st.mag, st.units)
        if s == self.other and st.other_is_qty is not False:
            return (st.other_units, st.other_units)
        if isinstance(e, ast.Name) and e.id in st.vars and st.vars[e.id][0] == "qty":
            return (st.vars[e.id][1], st.vars[e.id][1])
        if isinstance(e, ast.Call):
            nm = call_name(e)
            if nm in ("to", "ito") and isinstance(e.func, ast.Attribute):
                t = self.units_tag(st, e.args[0]) if e.args else "DIMLESS"
                return (t, t)
            if nm in ("to_root_units", "to_base_units", "to_reduced_units") and isinstance(e.func, ast.Attribute):
                base = self.qty_tag(st, e.func.value)
                if base is None:
                    return None
                k = {"to_root_units": "ROOT", "to_base_units": "BASE", "to_reduced_units": "RED"}[nm]
                t = f"{k}({base[1]})"
                return (t, t)
            if (norm(e.func) in ("self.__class__", "cls", "type(self)", "self._REGISTRY.Quantity", "registry.Quantity") or norm(e.func).endswith("._REGISTRY.Quantity")) and e.args:
                m = self.mag_tag(st, e.args[0])
                u = self.units_tag(st, e.args[1]) if len(e.args) > 1 else "DIMLESS"
                self.constructor(st, m, u, e)
                return (u, u)
        if isinstance(e, ast.BinOp) and isinstance(e.op, ast.Mult) and norm(e.left) == "1":
            return self.qty_tag(st, e.right)
        return None

    def mag_tag(self, st, e):
        s = norm(e)
        if s in ("self._magnitude", "self.magnitude", "self.m"):
            return st.mag
        if s in (f"{self.other}._magnitude", f"{self.other}.magnitude", f"{self.other}.m"):
            return st.other_units
        if s == self.other:
            return "BARE" if st.other_is_qty is False else "?other"
        if isinstance(e, ast.Name):
            if e.id in st.vars:
                k, t = st.vars[e.id]
                return t if k in ("mag", "bare") else "?" + e.id
            return "?" + e.id
        if isinstance(e, ast.Constant):
            return "BARE"
        if isinstance(e, ast.Attribute) and e.attr in ("_magnitude", "magnitude", "m"):
            q = self.qty_tag(st, e.value)
            if q is not None:
                return q[0]
            return "?" + s
        if isinstance(e, ast.Call):
            nm = call_name(e)
            if nm == "m_as" and e.args:
                return self.units_tag(st, e.args[0])
            if nm in ("_convert_magnitude", "_convert_magnitude_not_inplace") and e.args:
                return self.units_tag(st, e.args[0])
            if nm == "_to_magnitude":
                return "BARE"
            if nm in ("abs", "round", "neg", "pos", "copy", "deepcopy", "int", "float", "complex") and e.args:
                return self.mag_tag(st, e.args[0])
            if nm in ("op", "magnitude_op") and len(e.args) == 2 and isinstance(e.func, ast.Name):
                a, b = self.mag_tag(st, e.args[0]), self.mag_tag(st, e.args[1])
                if nm == "op":
                    self.same(st, a, b, e, "additive-or-comparison")
                    return a
                return "PROD"
            if nm == "divmod" and len(e.args) == 2:
                a, b = self.mag_tag(st, e.args[0]), self.mag_tag(st, e.args[1])
                self.same(st, a, b, e, "divmod")
                return "DIVMOD:" + st.canon(a)
            if nm == "eq" and len(e.args) >= 2:
                self.compare(st, e.args[0], e.args[1], e)
                return "BOOL"
            return "?" + s
        if isinstance(e, ast.BinOp):
            a, b = self.mag_tag(st, e.left), self.mag_tag(st, e.right)
            if isinstance(e.op, (ast.Add, ast.Sub)):
                self.same(st, a, b, e, "additive")
                return a
            if isinstance(e.op, ast.FloorDiv):
                self.same(st, a, b, e, "floor-division")
                return "DIMLESS"
            if isinstance(e.op, ast.Mod):
                self.same(st, a, b, e, "modulo")
                return a if a != "BARE" else b
            return "PROD"
        if isinstance(e, ast.UnaryOp):
            return self.mag_tag(st, e.operand)
        return "?" + s

    def compare(self, st, a, b, node):
        ta, tb = self.mag_tag(st, a), self.mag_tag(st, b)
        # zero test standing in for a comparison: eq(x._magnitude, 0, True)
        if isinstance(b, ast.Constant) and b.value == 0:
            who = "MULT_SELF" if "self" in norm(a) else "MULT_OTHER"
            text = norm(node)[:80]
            ok = who in st.facts or st.canon(ta).startswith(("ROOT(", "BASE(", "DIMLESS"))
            self._emit(ok, f"zero-test-needs-multiplicative-units|{text}", node,
                       "zero test on a magnitude whose units are known to be multiplicative",
                       f"`{text}` tests a magnitude against zero without establishing that its units are multiplicative (0 degC is not 0 kelvin)")
            return
        self.same(st, ta, tb, node, "comparison")

    def constructor(self, st, m, u, node):
        m, u = st.canon(m), st.canon(u)
        text = norm(node).splitlines()[0][:90]
        if not self.known(m) or not self.known(u) or m in ("BARE", "PROD", "BOOL") or u in ("PRODUNITS",):
            self.n_unknown += 1
            return
        if m.startswith("DIVMOD:"):
            return
        self._emit(m == u, f"constructor|{text}", node, f"magnitude in {m} wrapped with units {u}",
                   f"`{text}` wraps a magnitude expressed in {m} with units {u}")

    # ------------------------------------------------------------ facts from tests
    def apply_test(self, st, test, outcome: bool):
        neg = False
        while isinstance(test, ast.UnaryOp) and isinstance(test.op, ast.Not):
            neg = not neg
            test = test.operand
        val = outcome != neg
        if isinstance(test, ast.BoolOp):
            conj = isinstance(test.op, ast.And)
            # short-circuit evaluation: a later operand is only evaluated when the earlier ones
            # were true (and) / false (or); obligations inside it may rely on those facts
            tmp = st.copy()
            for v in test.values:
                self.apply_test(tmp, v, conj)
            if (conj and val) or (not conj and not val):
                st.facts |= tmp.facts
                st.alias.update(tmp.alias)
                if tmp.other_is_qty is not None:
                    st.other_is_qty = tmp.other_is_qty
            return
        s = norm(test)
        self._scan_zero_tests(st, test)
        same_units = s in (f"self._units == {self.other}._units", f"{self.other}._units == self._units")
        if not same_units and isinstance(test, ast.Compare) and len(test.ops) == 1 and isinstance(test.ops[0], ast.Eq):
            lt, rt = self.units_tag(st, test.left), self.units_tag(st, test.comparators[0])    # local aliases of the two unit containers
            same_units = lt is not None and rt is not None and {lt, rt} == {st.units, st.other_units} and all(isinstance(x, ast.Name) for x in (test.left, test.comparators[0]))
        if same_units and val:
            st.alias[st.other_units] = st.units
        # the false edge of `self._units != other._units` states the same equality
        diff_units = s in (f"self._units != {self.other}._units", f"{self.other}._units != self._units")
        if not diff_units and isinstance(test, ast.Compare) and len(test.ops) == 1 and isinstance(test.ops[0], ast.NotEq):
            lt, rt = self.units_tag(st, test.left), self.units_tag(st, test.comparators[0])
            diff_units = lt is not None and rt is not None and {lt, rt} == {st.units, st.other_units} and all(isinstance(x, ast.Name) for x in (test.left, test.comparators[0]))
        if diff_units and not val:
            st.alias[st.other_units] = st.units
        if s in (f"self._check({self.other})", f"isinstance({self.other}, PlainQuantity)", f"isinstance({self.other}, self.__class__)", f"_is_quantity({self.other})"):
            st.other_is_qty = val
        if s == f"zero_or_nan({self.other}, True)" and val:
            st.facts.add("ZERO_OTHER")
        if s == "self.dimensionless" and val:
            st.facts.add("DIMLESS_SELF")
        if s == "self._is_multiplicative":
            st.facts.add("MULT_SELF" if val else "NONMULT_SELF")
        if s == f"{self.other}._is_multiplicative" and val:
            st.facts.add("MULT_OTHER")
        if ("dimensionality" in s and self.other in s and "self" in s):
            cmp_eq = isinstance(test, ast.Compare) and isinstance(test.ops[0], ast.Eq)
            cmp_ne = isinstance(test, ast.Compare) and isinstance(test.ops[0], ast.NotEq)
            if (cmp_eq and val) or (cmp_ne and not val):
                st.facts.add("SAME_DIM")
                st.alias["ROOT(" + st.other_units + ")"] = "ROOT(" + st.units + ")"
                st.alias["BASE(" + st.other_units + ")"] = "BASE(" + st.units + ")"

    def _scan_zero_tests(self, st, test):
        for c in ast.walk(test):
            if isinstance(c, ast.Call) and call_name(c) == "eq" and len(c.args) >= 2 and isinstance(c.args[1], ast.Constant) and c.args[1].value == 0:
                self.compare(st, c.args[0], c.args[1], c)

    # ------------------------------------------------------------ statements
    def stmt(self, st, a):
        if isinstance(a, ast.Assign):
            v = a.value
            for t in a.targets:
                tt = norm(t)
                if tt == "self._magnitude":
                    st.mag = self.mag_tag(st, v)
                elif tt == "self._units":
                    st.units = self.units_tag(st, v)
                elif isinstance(t, ast.Name):
                    if t.id == "self":
                        q = self.qty_tag(st, v)
                        if q:
                            st.mag, st.units = q
                        continue
                    if t.id == self.other:
                        q = self.qty_tag(st, v)
                        if q:
                            st.other_units, st.other_is_qty = q[1], True
                        elif isinstance(v, ast.Attribute) and v.attr in ("_magnitude", "magnitude"):
                            st.vars[t.id] = ("mag", self.mag_tag(st, v))
                        continue
                    if isinstance(v, ast.Name) and v.id in st.vars:
                        st.vars[t.id] = st.vars[v.id]          # a plain copy of a tracked local keeps its kind and tag
                        continue
                    q = self.qty_tag(st, v)
                    if q is not None:
                        st.vars[t.id] = ("qty", q[1])
                        continue
                    if norm(v) in DIMLESS_TEXT or (isinstance(v, ast.Attribute) and v.attr in ("_units", "units")) or (isinstance(v, ast.Call) and call_name(v) in ("rename", "to_units_container", "UnitsContainer")):
                        st.vars[t.id] = ("units", self.units_tag(st, v))
                        continue
                    if isinstance(v, ast.Subscript) and "_get_root_units" in norm(v) or (isinstance(v, ast.Call) and "_get_root_units" in norm(v)):
                        st.vars[t.id] = ("units", "ROOT(" + st.units + ")")
                        continue
                    st.vars[t.id] = ("mag", self.mag_tag(st, v))
                elif isinstance(t, ast.Tuple) and isinstance(v, ast.Call) and call_name(v) == "divmod" and len(t.elts) == 2:
                    a_, b_ = self.mag_tag(st, v.args[0]), self.mag_tag(st, v.args[1])
                    self.same(st, a_, b_, v, "divmod")
                    st.vars[norm(t.elts[0])] = ("mag", "DIMLESS")
                    st.vars[norm(t.elts[1])] = ("mag", a_ if a_ != "BARE" else b_)
                elif isinstance(t, ast.Tuple) and isinstance(v, ast.Call) and call_name(v) in ("_get_root_units", "_get_base_units") and len(t.elts) == 2:
                    k = "ROOT" if call_name(v) == "_get_root_units" else "BASE"
                    st.vars[norm(t.elts[1])] = ("units", f"{k}({self.units_tag(st, v.args[0])})")
        elif isinstance(a, ast.AugAssign):
            tt = norm(a.target)
            if tt == "self._magnitude":
                b = self.mag_tag(st, a.value)
                if isinstance(a.op, (ast.Add, ast.Sub, ast.Mod)):
                    self.same(st, st.mag, b, a, {ast.Add: "additive", ast.Sub: "additive", ast.Mod: "modulo"}[type(a.op)])
                elif isinstance(a.op, ast.FloorDiv):
                    self.same(st, st.mag, b, a, "floor-division")
                    st.mag = "DIMLESS"
                else:
                    st.mag = "PROD"
            elif tt == "self._units":
                st.units = "PRODUNITS"
        elif isinstance(a, ast.Expr) and isinstance(a.value, ast.Call):
            c = a.value
            nm = call_name(c)
            recv = norm(c.func.value) if isinstance(c.func, ast.Attribute) else ""
            if nm in ("ito", "ito_root_units", "ito_base_units", "ito_reduced_units", "ito_preferred"):
                if recv == "self":
                    if nm == "ito":
                        t = self.units_tag(st, c.args[0]) if c.args else "DIMLESS"
                    else:
                        t = {"ito_root_units": "ROOT", "ito_base_units": "BASE", "ito_reduced_units": "RED", "ito_preferred": "PREF"}[nm] + f"({st.units})"
                    st.mag = st.units = t
                else:
                    self._emit(False, f"in-place-conversion-of-operand|{norm(c)[:60]}", c, "",
                               f"`{norm(c)}` converts `{recv}` in place: an operand other than the target of the in-place form is modified")
            else:
                self.mag_tag(st, c)

    def ret(self, st, r):
        v = r.value
        if v is None:
            return
        if norm(v) == "self" and self.inplace:
            m, u = st.canon(st.mag), st.canon(st.units)
            if self.known(m) and self.known(u) and m not in ("PROD", "BARE") and u != "PRODUNITS":
                self._emit(m == u, "inplace-result-consistent|return self", r, f"magnitude and units both {u}",
                           f"an in-place path returns self with the magnitude expressed in {m} but labelled with units {u}")
            return
        for e in (v.elts if isinstance(v, ast.Tuple) else [v]):
            if self.qty_tag(st, e) is None:
                self.mag_tag(st, e)

    # ------------------------------------------------------------ driver
    def run(self):
        cfg = cfg_of(self.fi)
        paths = 0
        stack = [(cfg.entry, State(), frozenset())]
        while stack:
            nid, st, seen = stack.pop()
            n = cfg.nodes[nid]
            if nid in (cfg.exit, cfg.rexit):
                paths += 1
                continue
            if paths > MAX_PATHS:
                break
            succ = cfg.succ[nid]
            if n.kind == "stmt" and n.ast is not None:
                if isinstance(n.ast, ast.Return):
                    self.ret(st, n.ast)
                elif isinstance(n.ast, ast.Raise):
                    pass
                else:
                    self.stmt(st, n.ast)
            if n.kind == "test":
                for (v, lab) in succ:
                    if lab == "exc":
                        continue
                    if (nid, v) in seen:
                        continue
                    s2 = st.copy()
                    # conditions hoisted into boolean temporaries (`both = a and b; if both and ...`) are looked through
                    self.apply_test(s2, _resolve_test(n.ast, self.fi.node), lab == "t")
                    stack.append((v, s2, seen | {(nid, v)}))
                continue
            for (v, lab) in succ:
                if lab == "exc" and n.kind != "stmt":
                    continue
                if lab == "exc" and not isinstance(n.ast, ast.Raise):
                    # follow exceptional edges only into handlers of the same function
                    if v == cfg.rexit:
                        continue
                if (nid, v) in seen:
                    continue
                stack.append((v, st.copy(), seen | {(nid, v)}))
        return paths
