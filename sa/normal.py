"""Normal form of the analysed source (applied once, when a module is indexed).

Rules are written against this normal form, so that two spellings of the same code that differ only by

  N1  else-after-terminator   `if c: ...return/raise/continue/break  else: B`   ==   `if c: ...` followed by B
  N2  adjacent single-use temporaries   `t = E` directly followed by a statement that evaluates `t` exactly once,
      first thing, outside any nested scope / conditional sub-expression, with no other occurrence of `t` in the
      function                                                                  ==   that statement with E for `t`

  N3  nested ifs   `if a: if b: X` (no else on either)                          ==   `if a and b: X`
  N4  negations    `not (a and b)` / `not (a or b)` / `not not a` in tests      ==   `not a or not b` / `not a and not b` / `a`
  N7  conditional expressions deciding the value of a statement
                   `return A if c else B` / `o.a = A if c else B`               ==   `if c: return A` + `return B` / `if c: o.a = A else: o.a = B`
                   (a plain local `x = A if c else B` keeps its single definition)
  (N5, N6: helpers and module constants unknown to the rule vocabulary are looked through, see the end of this file)

are the same tree for every rule.  Both rewrites preserve behaviour; line numbers of the surviving nodes are kept, so
reports still point at the real source lines."""
from __future__ import annotations

import ast

_SCOPES = (ast.FunctionDef, ast.AsyncFunctionDef, ast.Lambda, ast.ClassDef, ast.ListComp, ast.SetComp, ast.DictComp, ast.GeneratorExp)


def _terminates(stmts) -> bool:
    if not stmts:
        return False
    last = stmts[-1]
    if isinstance(last, (ast.Return, ast.Raise, ast.Continue, ast.Break)):
        return True
    if isinstance(last, ast.If):
        return _terminates(last.body) and _terminates(last.orelse)
    if isinstance(last, ast.Try):
        if _terminates(last.finalbody):
            return True
        return (_terminates(last.orelse) if last.orelse else _terminates(last.body)) and all(_terminates(h.body) for h in last.handlers)
    if isinstance(last, (ast.With, ast.AsyncWith)):
        return _terminates(last.body)
    return False


def _stmt_lists(fn):
    """(owner, field, list) of every statement list inside function `fn` (own scope and nested blocks; nested
    function definitions are handled on their own)."""
    stack = [fn]
    first = True
    while stack:
        n = stack.pop()
        if not first and isinstance(n, (ast.FunctionDef, ast.AsyncFunctionDef, ast.ClassDef, ast.Lambda)):
            continue
        first = False
        for fld in ("body", "orelse", "finalbody"):
            lst = getattr(n, fld, None)
            if isinstance(lst, list) and lst and isinstance(lst[0], ast.stmt):
                yield n, fld, lst
        for c in ast.iter_child_nodes(n):
            if isinstance(c, (ast.stmt, ast.ExceptHandler, ast.match_case)):
                stack.append(c)


def _unelse(fn) -> int:
    count, changed = 0, True
    while changed:
        changed = False
        for n, fld, lst in list(_stmt_lists(fn)):
            for i, st in enumerate(lst):
                if isinstance(st, ast.If) and st.orelse and _terminates(st.body):
                    rest, st.orelse = st.orelse, []
                    lst[i + 1:i + 1] = rest
                    count += 1
                    changed = True
                    break
            if changed:
                break
    return count


def _head(st):
    if isinstance(st, (ast.Return, ast.Expr)):
        return st.value
    if isinstance(st, ast.Assign):
        # targets such as `a[i] = t` evaluate the value first
        return st.value
    if isinstance(st, (ast.AugAssign,)):
        return None          # the target is read before the value
    if isinstance(st, ast.AnnAssign):
        return st.value
    if isinstance(st, ast.Raise):
        return st.exc if st.cause is None else None
    if isinstance(st, (ast.If, ast.Assert)):
        return st.test
    if isinstance(st, ast.For):
        return st.iter
    return None


def _evaluated_first(head, use) -> bool:
    """`use` (a Name load inside expression `head`) is evaluated before any call / await / yield of `head` completes,
    unconditionally, and outside nested scopes."""
    order = []

    def post(n):
        if isinstance(n, _SCOPES):
            order.append(("scope", n))
            return
        if isinstance(n, ast.IfExp):
            post(n.test)
            order.append(("cond", n))
            return
        if isinstance(n, ast.BoolOp):
            post(n.values[0])
            order.append(("cond", n))
            return
        if isinstance(n, ast.Compare) and len(n.ops) > 1:
            post(n.left)
            post(n.comparators[0])
            order.append(("cond", n))
            return
        if isinstance(n, ast.NamedExpr):
            post(n.value)
            order.append(("call", n))
            return
        for c in ast.iter_child_nodes(n):
            if isinstance(c, ast.expr) or isinstance(c, ast.keyword):
                post(c)
            elif isinstance(c, ast.AST) and not isinstance(c, (ast.expr_context, ast.operator, ast.cmpop, ast.unaryop, ast.boolop)):
                post(c)
        if n is use:
            order.append(("use", n))
        elif isinstance(n, (ast.Call, ast.Await, ast.Yield, ast.YieldFrom)):
            order.append(("call", n))
    post(head)
    for kind, n in order:
        if kind == "use":
            return True
        if kind in ("call", "scope", "cond"):
            # a conditional / nested scope may contain the use: then it is not unconditional
            return False
    return False


def _inline_temps(fn) -> int:
    """A local name all of whose occurrences come in adjacent pairs `t = E` / <statement evaluating t once, first>
    (one pair, or one pair per branch as in `result = ...; return result`) is replaced by E in each pair."""
    count, changed = 0, True
    while changed:
        changed = False
        occ, banned = {}, set()
        for x in ast.walk(fn):
            if isinstance(x, ast.Name):
                occ.setdefault(x.id, []).append(x)
            elif isinstance(x, (ast.Global, ast.Nonlocal)):
                banned.update(x.names)
            elif isinstance(x, ast.arg):
                banned.add(x.arg)
            elif isinstance(x, ast.ExceptHandler) and x.name:
                banned.add(x.name)
        # names that occur inside a nested scope are left alone
        for sc in [n for n in ast.walk(fn) if isinstance(n, _SCOPES) and n is not fn]:
            for x in ast.walk(sc):
                if isinstance(x, ast.Name):
                    banned.add(x.id)
        pairs = {}        # name -> [(list, index, target, value, use, head)]
        for n, fld, lst in list(_stmt_lists(fn)):
            for i in range(len(lst) - 1):
                st, nxt = lst[i], lst[i + 1]
                if isinstance(st, ast.Assign) and len(st.targets) == 1 and isinstance(st.targets[0], ast.Name):
                    t, val = st.targets[0], st.value
                elif isinstance(st, ast.AnnAssign) and isinstance(st.target, ast.Name) and st.value is not None:
                    t, val = st.target, st.value
                else:
                    continue
                if t.id in banned or isinstance(val, (ast.Yield, ast.YieldFrom, ast.Await, ast.Lambda, ast.NamedExpr)):
                    continue
                if any(isinstance(x, ast.Name) and x.id == t.id for x in ast.walk(val)):
                    continue
                head = _head(nxt)
                if head is None:
                    continue
                uses = [x for x in ast.walk(nxt) if isinstance(x, ast.Name) and x.id == t.id]
                if len(uses) != 1 or not isinstance(uses[0].ctx, ast.Load) or not any(x is uses[0] for x in ast.walk(head)):
                    continue
                if not _evaluated_first(head, uses[0]):
                    continue
                pairs.setdefault(t.id, []).append((lst, st, nxt, t, val, uses[0], head))
        for name, ps in pairs.items():
            os_ = occ.get(name, [])
            paired = {id(p[3]) for p in ps} | {id(p[5]) for p in ps}
            if len(os_) != 2 * len(ps) or any(id(o) not in paired for o in os_):
                continue
            # a pair whose use-statement is itself the definition of another pair of the same name cannot occur
            # (the value must not mention the name), so the pairs are independent
            for lst, st, nxt, t, val, use, head in ps:

                class S(ast.NodeTransformer):
                    def visit_Name(self, nd):
                        return val if nd is use else nd
                new_head = S().visit(head)
                for f_ in ("value", "exc", "test", "iter"):
                    if getattr(nxt, f_, None) is head:
                        setattr(nxt, f_, new_head)
                lst[:] = [x for x in lst if x is not st]
                count += 1
            changed = True
            break
    return count


def _merge_nested_ifs(fn) -> int:
    """N3: `if a: if b: X` (neither has an else, the inner if is the whole body) -> `if a and b: X`."""
    count, changed = 0, True
    while changed:
        changed = False
        for n in ast.walk(fn):
            if isinstance(n, ast.If) and not n.orelse and len(n.body) == 1 and isinstance(n.body[0], ast.If) and not n.body[0].orelse:
                inner = n.body[0]
                vals = (n.test.values if isinstance(n.test, ast.BoolOp) and isinstance(n.test.op, ast.And) else [n.test]) + \
                       (inner.test.values if isinstance(inner.test, ast.BoolOp) and isinstance(inner.test.op, ast.And) else [inner.test])
                n.test = ast.copy_location(ast.BoolOp(op=ast.And(), values=list(vals)), n.test)
                n.body = inner.body
                count += 1
                changed = True
    return count


def _nnf(fn) -> int:
    """N4: in the tests of if / while / assert / conditional expressions, negations are pushed through and/or
    (`not (a and b)` -> `not a or not b`, `not (a or b)` -> `not a and not b`, `not not a` -> `a`); same truth value,
    same evaluation order, same short-circuit."""
    count = 0

    def push(e, negate):
        nonlocal count
        if isinstance(e, ast.UnaryOp) and isinstance(e.op, ast.Not):
            if negate or isinstance(e.operand, (ast.BoolOp, ast.UnaryOp)):
                if isinstance(e.operand, ast.BoolOp) or negate or (isinstance(e.operand, ast.UnaryOp) and isinstance(e.operand.op, ast.Not)):
                    count += 1
                    return push(e.operand, not negate)
            return e if not negate else e.operand
        if isinstance(e, ast.BoolOp):
            op = e.op
            if negate:
                op = ast.Or() if isinstance(e.op, ast.And) else ast.And()
            return ast.copy_location(ast.BoolOp(op=op, values=[push(v, negate) for v in e.values]), e)
        if negate:
            return ast.copy_location(ast.UnaryOp(op=ast.Not(), operand=e), e)
        return e
    for n in ast.walk(fn):
        if isinstance(n, (ast.If, ast.While, ast.Assert, ast.IfExp)):
            n.test = push(n.test, False)
    return count


def _simple(e) -> bool:
    return isinstance(e, (ast.Name, ast.Constant)) or (isinstance(e, ast.Attribute) and _simple(e.value)) or (isinstance(e, ast.Starred) and _simple(e.value))


# lifting a conditional expression out of the argument list of a call (`f(A if c else B)` -> `f(A) if c else f(B)`) is
# behaviour-preserving but multiplies statements that rules count (one append per item, one division, ...): off.
_LIFT_THROUGH_CALLS = False


def _lift_ifexp(e):
    """(test, then-expression, else-expression) when `e` is a conditional expression, or a call / attribute access /
    unary or binary operation with exactly one conditional-expression operand evaluated first among its non-trivial
    parts (everything evaluated before it is a plain name, attribute or constant): `f(a, X if c else Y)` is
    `f(a, X) if c else f(a, Y)`.  None otherwise."""
    if isinstance(e, ast.IfExp):
        return e.test, e.body, e.orelse
    if not _LIFT_THROUGH_CALLS:
        return None
    parts = []
    if isinstance(e, ast.Call):
        parts = [("func", None, e.func)] + [("args", i, a) for i, a in enumerate(e.args)] + [("keywords", i, k.value) for i, k in enumerate(e.keywords)]
    elif isinstance(e, ast.Attribute):
        parts = [("value", None, e.value)]
    elif isinstance(e, ast.UnaryOp) and not isinstance(e.op, ast.Not):
        parts = [("operand", None, e.operand)]
    elif isinstance(e, ast.BinOp):
        parts = [("left", None, e.left), ("right", None, e.right)]
    elif isinstance(e, ast.Subscript):
        parts = [("value", None, e.value), ("slice", None, e.slice)]
    else:
        return None
    for k, (fld, idx, sub) in enumerate(parts):
        if _simple(sub):
            continue
        inner = _lift_ifexp(sub) if isinstance(sub, (ast.IfExp, ast.Call, ast.Attribute, ast.BinOp, ast.UnaryOp, ast.Subscript)) else None
        if inner is None or not all(_simple(x[2]) for x in parts[k + 1:] if False):
            return None
        # everything before was simple; the parts after it are evaluated after the test, in both branches alike
        test, a, b = inner

        def rebuild(repl):
            new = _clone_expr(e)
            if fld == "keywords":
                new.keywords[idx].value = repl
            elif idx is None:
                setattr(new, fld, repl)
            else:
                getattr(new, fld)[idx] = repl
            return new
        return test, rebuild(a), rebuild(b)
    return None


def _ifexp_to_if(fn) -> int:
    """N7: a conditional expression that decides the value of a return / assignment / expression statement becomes an if
    statement (`return A if c else B` -> `if c: return A` / `return B`; `x = f(A if c else B)` -> `if c: x = f(A)` /
    `else: x = f(B)`), provided everything the statement evaluates before the test is a plain name, attribute or
    constant.  Same behaviour; rules then see one spelling."""
    count, changed = 0, True
    while changed:
        changed = False
        for n, fld, lst in list(_stmt_lists(fn)):
            for i, st in enumerate(lst):
                if isinstance(st, ast.Return) and st.value is not None:
                    got = _lift_ifexp(st.value)
                    mk = lambda v, st=st: ast.copy_location(ast.Return(value=v), st)
                elif isinstance(st, ast.Assign) and all(isinstance(t, (ast.Attribute, ast.Subscript)) and _simple(t.value) for t in st.targets):
                    # only stores into attributes / items: a plain local keeps its single definition (the conditional
                    # expression), which is what flow-aware resolution of names relies on
                    got = _lift_ifexp(st.value)
                    mk = lambda v, st=st: ast.copy_location(ast.Assign(targets=[_clone_target(t) for t in st.targets], value=v), st)
                elif isinstance(st, ast.Expr) and not isinstance(st.value, ast.Constant):
                    got = _lift_ifexp(st.value)
                    mk = lambda v, st=st: ast.copy_location(ast.Expr(value=v), st)
                else:
                    continue
                if got is None:
                    continue
                test, a, b = got
                new_if = ast.copy_location(ast.If(test=test, body=[mk(a)], orelse=[mk(b)]), st)
                lst[i] = new_if
                ast.fix_missing_locations(new_if)
                count += 1
                changed = True
                break
            if changed:
                break
    return count


def normalise(tree: ast.AST) -> dict:
    stats = {"unelse": 0, "inlined_temporaries": 0, "merged_ifs": 0, "negations_pushed": 0, "ifexp_to_if": 0}
    import os
    n7 = os.environ.get("VERIF_N7", "1") == "1"
    for fn in [n for n in ast.walk(tree) if isinstance(n, (ast.FunctionDef, ast.AsyncFunctionDef))]:
        stats["inlined_temporaries"] += _inline_temps(fn)
        if n7:
            stats["ifexp_to_if"] += _ifexp_to_if(fn)
        stats["unelse"] += _unelse(fn)
        stats["inlined_temporaries"] += _inline_temps(fn)
        stats["merged_ifs"] += _merge_nested_ifs(fn)
        stats["negations_pushed"] += _nnf(fn)
    return stats


# ---------------------------------------------------------------------------------------------------------------------
# N5  single-caller private helpers (package level; applied by Index after the first scan)
# ---------------------------------------------------------------------------------------------------------------------
def _walk_own(fn):
    """nodes of fn's own scope (nested function/class/lambda bodies excluded)"""
    stack = list(ast.iter_child_nodes(fn))
    while stack:
        n = stack.pop()
        yield n
        if not isinstance(n, (ast.FunctionDef, ast.AsyncFunctionDef, ast.ClassDef, ast.Lambda)):
            stack.extend(ast.iter_child_nodes(n))


def _clone(n):
    return ast.parse(ast.unparse(n)).body[0]


def _inline_pass(modules: dict, max_sites: int, max_body: int, known, tried: set) -> list:
    """N5: a private function / method (`_name`, not dunder) that is defined exactly once in the package, is not
    decorated, not a generator, not recursive, never used as a value, and is called from exactly ONE site - which lies
    in the same module (same class for a method called as `self._name(...)` / `cls._name(...)`) and has one of the forms

        self._h(...)                      (statement; the helper returns no value)
        x = self._h(...)                  (the helper's only `return <value>` is its last statement)
        return self._h(...)               (tail call: the helper's returns become the caller's)
        ... self._h(...) ...              (anywhere in an expression; the helper is `return <expr>` only)

    is spliced into its caller, parameters substituted (or bound by an assignment when the argument is not a plain
    name/attribute/constant and the parameter is read more than once or rebound), helper locals that would collide
    renamed.  This is what "extract method" produces, read backwards: the caller gets the shape it had before the
    extraction.  The helper's own definition stays in the module.  Returns [(helper, caller, form)]."""
    defs, calls, other = {}, {}, {}
    owner = {}
    for m in modules.values():
        for n in ast.walk(m.tree):
            for c in ast.iter_child_nodes(n):
                c._np = n
        for cls in [None] + [c for c in ast.walk(m.tree) if isinstance(c, ast.ClassDef)]:
            body = m.tree.body if cls is None else cls.body
            for st in body:
                if isinstance(st, (ast.FunctionDef, ast.AsyncFunctionDef)) and st.name.startswith("_") and not st.name.startswith("__"):
                    defs.setdefault(st.name, []).append((m, cls, st))
    # every function (for locating the caller of a call site)
    for m in modules.values():
        for n in ast.walk(m.tree):
            if isinstance(n, ast.Attribute) and n.attr in defs:
                par = getattr(n, "_np", None)
                if isinstance(par, ast.Call) and par.func is n and isinstance(n.value, ast.Name) and n.value.id in ("self", "cls"):
                    calls.setdefault(n.attr, []).append((m, par))
                else:
                    other[n.attr] = other.get(n.attr, 0) + 1
            elif isinstance(n, ast.Name) and n.id in defs and isinstance(n.ctx, ast.Load):
                par = getattr(n, "_np", None)
                if isinstance(par, ast.Call) and par.func is n:
                    calls.setdefault(n.id, []).append((m, par))
                else:
                    other[n.id] = other.get(n.id, 0) + 1
            elif isinstance(n, ast.Constant) and isinstance(n.value, str) and n.value in defs:
                other[n.value] = other.get(n.value, 0) + 1          # getattr(self, "_name") and the like
    done = []
    cand = [n_ for n_ in sorted(defs) if n_ not in known and n_ not in tried and len(defs[n_]) == 1 and not other.get(n_) and 1 <= len(calls.get(n_, [])) <= max_sites]
    # callees first: a helper whose body still calls another candidate waits for a later pass (its body would carry
    # new call sites of that candidate into its callers)
    def calls_candidate(h_):
        return any((isinstance(x, ast.Attribute) and x.attr in cand) or (isinstance(x, ast.Name) and x.id in cand) for st in h_.body for x in ast.walk(st)
                   if not (isinstance(x, ast.Name) and isinstance(x.ctx, ast.Store)))
    for name in cand:
        ds = defs[name]
        hm, hcls, h = ds[0]
        if any(n2 != name and ((isinstance(x, ast.Attribute) and x.attr == n2) or (isinstance(x, ast.Name) and x.id == n2)) for n2 in cand for st in h.body for x in ast.walk(st)):
            continue
        tried.add(name)
        if len(calls[name]) > 1 and len(h.body) > max_body:
            continue
        plan_sites = calls[name]
        # all-or-nothing: every call site must be inlinable, otherwise the helper is left alone everywhere
        results = [_inline_one(name, hm, hcls, h, cm, call, dry=True) for cm, call in plan_sites]
        if not all(results):
            continue
        results = []
        for cm, call in plan_sites:
            r = _inline_one(name, hm, hcls, h, cm, call, dry=False)
            if r:
                done.append(r)
            results.append(r)
        if all(results):
            # every call site now carries the body: the definition itself is dead for the analysis (package-wide
            # who-may-call scans must not see the same statements a second time, outside their callers' context)
            owner_body = hcls.body if hcls is not None else hm.tree.body
            owner_body[:] = [st for st in owner_body if st is not h] or [ast.Pass(lineno=getattr(h, "lineno", 1))]
    return done


def inline_single_callers(modules: dict, max_sites: int = 1, max_body: int = 12, known=()) -> list:
    """N5 driver: passes of _inline_pass until nothing more is spliced (callees before callers)."""
    out, tried = [], set()
    for _ in range(6):
        got = _inline_pass(modules, max_sites, max_body, known, tried)
        out.extend(got)
        if not got:
            break
    import os
    if os.environ.get("VERIF_N5_NESTED", "1") == "1":
        out.extend(_inline_nested(modules, max_sites, max_body, known))
    return out


def _inline_nested(modules: dict, max_sites: int, max_body: int, known) -> list:
    """N5 for NESTED helpers: a function defined directly in the body of another function, whose name the rule vocabulary
    does not mention, that is not decorated, not a generator, declares no nonlocal/global, is not recursive, and is only
    ever CALLED (never passed around) - from its enclosing function's own scope, at most `max_sites` times - is spliced
    into those call sites like a module-level helper (its free variables are the enclosing function's own), and its
    definition is dropped."""
    done = []
    FN = (ast.FunctionDef, ast.AsyncFunctionDef)
    for m in modules.values():
        changed = True
        rounds = 0
        while changed and rounds < 8:
            changed = False
            rounds += 1
            for n in ast.walk(m.tree):
                for c in ast.iter_child_nodes(n):
                    c._np = n
            for F in [n for n in ast.walk(m.tree) if isinstance(n, FN)]:
                for h in [st for st in F.body if isinstance(st, ast.FunctionDef)]:
                    name = h.name
                    if name in known or h.decorator_list or name.startswith("__"):
                        continue
                    if any(isinstance(x, (ast.Yield, ast.YieldFrom, ast.Await, ast.Global, ast.Nonlocal)) for x in ast.walk(h)):
                        continue
                    # only one-expression helpers (`def triplet(p, u, s): return (...)`): a multi-statement nested function
                    # is a unit of the algorithm that rules may look for by role (the look-ahead / consumer helpers of the
                    # tokenizer, wrappers, key functions), whatever it is called
                    hb = [st for st in h.body if not (isinstance(st, ast.Expr) and isinstance(st.value, ast.Constant) and isinstance(st.value.value, str))]
                    if not (len(hb) == 1 and isinstance(hb[0], ast.Return) and hb[0].value is not None):
                        continue
                    refs = [x for x in ast.walk(F) if isinstance(x, ast.Name) and x.id == name]
                    inside_h = {id(x) for x in ast.walk(h)}
                    if any(id(x) in inside_h for x in refs):
                        continue            # recursive
                    own = {id(x) for x in _walk_own(F)}
                    sites = []
                    ok = bool(refs)
                    for x in refs:
                        par = getattr(x, "_np", None)
                        if not (isinstance(x.ctx, ast.Load) and isinstance(par, ast.Call) and par.func is x and id(par) in own):
                            ok = False
                            break
                        sites.append(par)
                    if not ok or not (1 <= len(sites) <= max_sites):
                        continue
                    # a name bound in F with the same spelling as the helper (re-definition) disqualifies
                    if sum(1 for st in ast.walk(F) if isinstance(st, FN) and st.name == name) != 1:
                        continue
                    if not all(_inline_one(name, m, None, h, m, call, dry=True) for call in sites):
                        continue
                    res = [_inline_one(name, m, None, h, m, call, dry=False) for call in sites]
                    if all(res):
                        F.body[:] = [st for st in F.body if st is not h] or [ast.Pass(lineno=getattr(h, "lineno", 1))]
                    done.extend(r for r in res if r)
                    changed = True
                    break
                if changed:
                    break
    return done


def _inline_one(name, hm, hcls, h, cm, call, dry):
    if True:
        static = len(h.decorator_list) == 1 and isinstance(h.decorator_list[0], ast.Name) and h.decorator_list[0].id == "staticmethod"
        clsm = len(h.decorator_list) == 1 and isinstance(h.decorator_list[0], ast.Name) and h.decorator_list[0].id == "classmethod"
        if cm is not hm or (h.decorator_list and not (static or clsm)) or isinstance(h, ast.AsyncFunctionDef):
            return None
        if any(isinstance(x, (ast.Yield, ast.YieldFrom, ast.Await, ast.Global, ast.Nonlocal)) for x in ast.walk(h)):
            return None
        is_method = hcls is not None
        if is_method != isinstance(call.func, ast.Attribute):
            return None
        # the enclosing function of the call, and (for methods) its class
        caller = call
        while caller is not None and not isinstance(caller, (ast.FunctionDef, ast.AsyncFunctionDef, ast.Lambda)):
            caller = getattr(caller, "_np", None)
        if caller is None or isinstance(caller, ast.Lambda) or caller is h:
            return None
        top = caller
        ccls = None
        while top is not None:
            if isinstance(top, ast.ClassDef):
                ccls = top
                break
            top = getattr(top, "_np", None)
        if is_method and ccls is not hcls:
            return None
        if any(x is call for x in ast.walk(h)):
            return None
        # ---- parameters
        a = h.args
        if a.posonlyargs or a.kwonlyargs or a.vararg or a.kwarg:
            return None
        ps = [x.arg for x in a.args]
        if is_method and not static:
            if not ps or ps[0] not in ("self", "cls"):
                return None
            ps = ps[1:]
        if any(isinstance(x, ast.Starred) for x in call.args) or any(k.arg is None for k in call.keywords) or len(call.args) > len(ps):
            return None
        sub = dict(zip(ps, call.args))
        for k in call.keywords:
            if k.arg in ps and k.arg not in sub:
                sub[k.arg] = k.value
        if clsm and is_method:
            # `cls` of a classmethod helper: the receiver's class
            recv = call.func.value.id if isinstance(call.func, ast.Attribute) and isinstance(call.func.value, ast.Name) else None
            first = h.args.args[0].arg
            if recv == "self":
                ps = [first] + ps
                sub[first] = ast.Attribute(value=ast.Name(id="self", ctx=ast.Load()), attr="__class__", ctx=ast.Load())
            elif recv != first:
                return None
        for p_, d_ in zip(ps[len(ps) - len(a.defaults):], a.defaults):
            sub.setdefault(p_, d_)
        if set(sub) != set(ps):
            return None
        body = [_clone(st) for st in h.body if not (isinstance(st, ast.Expr) and isinstance(st.value, ast.Constant) and isinstance(st.value.value, str))]
        if not body:
            return None
        shell = ast.FunctionDef(name="_", args=ast.arguments(posonlyargs=[], args=[], kwonlyargs=[], kw_defaults=[], defaults=[]), body=body, decorator_list=[], lineno=1)
        _unelse(shell)
        body = shell.body
        own = [x for st in body for x in [st] + list(_walk_own(st))]
        rets = [x for x in own if isinstance(x, ast.Return)]
        stored = {x.id for x in own if isinstance(x, ast.Name) and isinstance(x.ctx, (ast.Store, ast.Del))}
        reads = {}
        for st in body:
            for x in ast.walk(st):
                if isinstance(x, ast.Name) and isinstance(x.ctx, ast.Load):
                    reads[x.id] = reads.get(x.id, 0) + 1
        # ---- form of the call site
        stmt = getattr(call, "_np", None)
        form = None
        single_expr = len(body) == 1 and isinstance(body[0], ast.Return) and body[0].value is not None
        if not single_expr and not (isinstance(stmt, (ast.Expr, ast.Return, ast.Assign, ast.AnnAssign)) and getattr(stmt, "value", None) is call):
            # a multi-statement helper called inside a larger expression: when the call is the first thing the statement
            # evaluates it can be hoisted into a temporary (`t = helper(...)`), which is then the assign form
            S = call
            while S is not None and not isinstance(S, ast.stmt):
                S = getattr(S, "_np", None)
            head = _head(S) if S is not None else None
            if head is None or not any(x is call for x in ast.walk(head)) or not _evaluated_first(head, call):
                return None
            if dry:
                return True if rets and _tail_returns([_clone(x) for x in body], lambda e: []) is not None else None
            tmpn = f"{name.strip('_')}__value"
            par = getattr(call, "_np", None)
            ref = ast.copy_location(ast.Name(id=tmpn, ctx=ast.Load()), call)
            for f_, v in ast.iter_fields(par):
                if v is call:
                    setattr(par, f_, ref)
                elif isinstance(v, list):
                    for i_, x in enumerate(v):
                        if x is call:
                            v[i_] = ref
            new_stmt = ast.copy_location(ast.Assign(targets=[ast.Name(id=tmpn, ctx=ast.Store())], value=call), S)
            sp = getattr(S, "_np", None)
            placed = False
            for fld in ("body", "orelse", "finalbody"):
                lst = getattr(sp, fld, None)
                if isinstance(lst, list) and any(x is S for x in lst):
                    k_ = [j for j, x in enumerate(lst) if x is S][0]
                    lst.insert(k_, new_stmt)
                    placed = True
            if not placed:
                return None
            new_stmt._np = sp
            call._np = new_stmt
            ref._np = par
            stmt = new_stmt
        if isinstance(stmt, ast.Expr) and stmt.value is call:
            if all(r.value is None or (isinstance(r.value, ast.Constant) and r.value.value is None) for r in rets):
                if not any(r is not body[-1] for r in rets):
                    form = "statement"
                elif _tail_returns([_clone(x) for x in body], lambda e: []) is not None:
                    form = "statement-structured"
        elif isinstance(stmt, ast.Return) and stmt.value is call:
            form = "tail"
        elif isinstance(stmt, (ast.Assign, ast.AnnAssign)) and stmt.value is call:
            if len(rets) == 1 and rets[0] is body[-1] and rets[0].value is not None:
                form = "assign"
            elif isinstance(stmt, ast.Assign) and rets and _tail_returns([_clone(x) for x in body], lambda e: []) is not None:
                form = "assign-structured"
        if form is None and single_expr:
            form = "expression"
        if form is None:
            return None
        # the statement list that holds the call-site statement (not needed for the expression form)
        holder = None
        if form != "expression":
            par = getattr(stmt, "_np", None)
            for fld in ("body", "orelse", "finalbody"):
                lst = getattr(par, fld, None)
                if isinstance(lst, list) and any(x is stmt for x in lst):
                    holder = lst
            if holder is None:
                return None
        if dry:
            return True
        # ---- bind parameters
        pre = []
        simple = lambda e: isinstance(e, (ast.Name, ast.Constant)) or (isinstance(e, ast.Attribute) and simple(e.value))
        mapping = {}
        caller_names = {x.id for x in ast.walk(caller) if isinstance(x, ast.Name)} | {x.arg for x in ast.walk(caller) if isinstance(x, ast.arg)}
        ren = {}
        for p_ in ps:
            arg = sub[p_]
            if p_ in stored or (not simple(arg) and reads.get(p_, 0) > 1) or form == "expression" and not simple(arg) and reads.get(p_, 0) > 1:
                if form == "expression":
                    mapping = None
                    break
                newp = p_ if p_ not in caller_names else f"{p_}__{name.strip('_')}"
                ren[p_] = newp
                pre.append(ast.Assign(targets=[ast.Name(id=newp, ctx=ast.Store())], value=arg, lineno=getattr(stmt, "lineno", 1)))
            else:
                mapping[p_] = arg
        if mapping is None:
            return None
        for l_ in stored - set(ps):
            if l_ in caller_names:
                ren[l_] = f"{l_}__{name.strip('_')}"

        class R(ast.NodeTransformer):
            def visit_Name(self, n):
                if n.id in ren:
                    return ast.copy_location(ast.Name(id=ren[n.id], ctx=n.ctx), n)
                if n.id in mapping and isinstance(n.ctx, ast.Load):
                    return _clone_expr(mapping[n.id])
                return n

            def visit_FunctionDef(self, n):       # nested definitions keep their own parameters
                return n if any(x.arg in mapping or x.arg in ren for x in ast.walk(n.args) if isinstance(x, ast.arg)) else self.generic_visit(n)

            visit_Lambda = visit_FunctionDef
        body = [R().visit(st) for st in body]
        line = getattr(stmt if form != "expression" else call, "lineno", 1)
        for st in body + pre:
            for x in ast.walk(st):
                if hasattr(x, "lineno"):
                    x.lineno = line
                    x.end_lineno = line
        if form == "expression":
            new = body[0].value
            par = getattr(call, "_np", None)
            for f_, v in ast.iter_fields(par):
                if v is call:
                    setattr(par, f_, new)
                elif isinstance(v, list):
                    for i, x in enumerate(v):
                        if x is call:
                            v[i] = new
        else:
            i = [k for k, x in enumerate(holder) if x is stmt][0]
            if form == "assign":
                stmt.value = body[-1].value
                holder[i:i + 1] = pre + body[:-1] + [stmt]
            elif form == "assign-structured":
                def mk(e, stmt=stmt, line=line):
                    return [ast.Assign(targets=[_clone_target(t) for t in stmt.targets], value=e if e is not None else ast.Constant(value=None), lineno=line)]
                holder[i:i + 1] = pre + _tail_returns(body, mk)
            elif form == "statement-structured":
                holder[i:i + 1] = pre + (_tail_returns(body, lambda e: []) or [ast.Pass(lineno=line)])
            elif form == "tail":
                tail = body if _terminates(body) else body + [ast.Return(value=ast.Constant(value=None), lineno=line)]
                holder[i:i + 1] = pre + tail
            else:
                if isinstance(body[-1], ast.Return):
                    body = body[:-1]
                holder[i:i + 1] = pre + (body or [ast.Pass(lineno=line)])
        ast.fix_missing_locations(cm.tree)
        for n in ast.walk(caller):
            for c in ast.iter_child_nodes(n):
                c._np = n
        return (f"{hm.name}::{(hcls.name + '.') if hcls else ''}{name}", f"{cm.name}::{(ccls.name + '.') if ccls else ''}{caller.name}", form)


def rule_vocabulary() -> set:
    """Every private-looking identifier that occurs anywhere in the rule packs and the engine: helpers the rules know by
    name are never looked through (they are anchors); helpers the rules have never heard of are."""
    import os
    import re
    here = os.path.dirname(os.path.abspath(__file__))
    out = set()
    for dp, dn, fns in os.walk(here):
        for f in fns:
            if f.endswith(".py"):
                with open(os.path.join(dp, f), encoding="utf-8") as fh:
                    out.update(re.findall(r"(?<![A-Za-z0-9_])_[A-Za-z][A-Za-z0-9_]*", fh.read()))
    spec = os.path.join(os.path.dirname(here), "spec")
    if os.path.isdir(spec):
        for f in os.listdir(spec):
            if f.endswith(".json"):
                with open(os.path.join(spec, f), encoding="utf-8") as fh:
                    out.update(re.findall(r"(?<![A-Za-z0-9_])_[A-Za-z][A-Za-z0-9_]*", fh.read()))
    return out


def _mk_if(st, b, e):
    """`if c: b else: e` with empty branches repaired (`if c: <nothing> else: e` is `if not c: e`)."""
    if not b and not e:
        return ast.copy_location(ast.Expr(value=st.test), st)       # only the test is evaluated
    if not b:
        t = st.test
        st.test = t.operand if isinstance(t, ast.UnaryOp) and isinstance(t.op, ast.Not) else ast.copy_location(ast.UnaryOp(op=ast.Not(), operand=t), t)
        st.body, st.orelse = e, []
        return st
    st.body, st.orelse = b, e
    return st


def _tail_returns(stmts, make):
    """Rewrite a statement list whose `return`s are all in tail position (last statement, or last statement of an
    if-branch whose remaining siblings then form the other branch) into return-free statements, each
    `return E` replaced by make(E) (a list of statements).  None when some return is not in tail position."""
    if not stmts:
        return make(None)
    out = []
    for i, st in enumerate(stmts):
        rest = stmts[i + 1:]
        has_ret = any(isinstance(x, ast.Return) for x in [st] + list(_walk_own(st)))
        if not has_ret:
            out.append(st)
            continue
        if isinstance(st, ast.Return):
            return out + make(st.value)          # anything after a return is dead
        if isinstance(st, ast.If):
            if _terminates(st.body) and not st.orelse:
                b = _tail_returns(st.body, make)
                e = _tail_returns(rest, make)
                if b is None or e is None:
                    return None
                return out + [_mk_if(st, b, e)]
            if not rest:
                b = _tail_returns(st.body, make)
                e = _tail_returns(st.orelse, make)
                if b is None or e is None:
                    return None
                return out + [_mk_if(st, b, e)]
            if _terminates(st.body) and _terminates(st.orelse):
                b = _tail_returns(st.body, make)
                e = _tail_returns(st.orelse, make)
                if b is None or e is None:
                    return None
                return out + [_mk_if(st, b, e)]
            return None
        return None                                  # a return inside a loop / try / with: not structured
    return out + make(None)


def _clone_target(t):
    return ast.parse(ast.unparse(t) + " = 0").body[0].targets[0]


def _clone_expr(e):
    return ast.parse(ast.unparse(e), mode="eval").body


# ---------------------------------------------------------------------------------------------------------------------
# N6  module-level literal constants the rules have never heard of
# ---------------------------------------------------------------------------------------------------------------------
def expand_module_constants(modules: dict, known=()) -> list:
    """N6: a module-level name bound exactly once, at module top level, to a literal (str / number / bool / None, or a
    tuple of such), never declared global and never re-bound in a function, and that the rule vocabulary does not
    mention, is replaced by the literal wherever a function of the same module reads it ("move a literal to a module
    constant", read backwards).  Returns [(module, name)]."""
    done = []

    def literal(v):
        if isinstance(v, ast.Constant):
            return True
        if isinstance(v, ast.UnaryOp) and isinstance(v.op, (ast.USub, ast.UAdd)) and isinstance(v.operand, ast.Constant):
            return True
        return isinstance(v, ast.Tuple) and all(literal(e) for e in v.elts)
    for m in modules.values():
        binds = {}
        for st in m.tree.body:
            if isinstance(st, ast.Assign) and len(st.targets) == 1 and isinstance(st.targets[0], ast.Name):
                binds.setdefault(st.targets[0].id, []).append(st.value)
            elif isinstance(st, ast.AnnAssign) and isinstance(st.target, ast.Name) and st.value is not None:
                binds.setdefault(st.target.id, []).append(st.value)
        cands = {n: vs[0] for n, vs in binds.items() if len(vs) == 1 and literal(vs[0]) and n not in known and not n.startswith("__")}
        if not cands:
            continue
        # any other binding of the name anywhere in the module disqualifies it
        for x in ast.walk(m.tree):
            if isinstance(x, (ast.Global, ast.Nonlocal)):
                for n in x.names:
                    cands.pop(n, None)
            elif isinstance(x, ast.Name) and isinstance(x.ctx, (ast.Store, ast.Del)) and x.id in cands:
                par_is_module_bind = any(isinstance(st, (ast.Assign, ast.AnnAssign)) and any(t is x for t in (st.targets if isinstance(st, ast.Assign) else [st.target])) for st in m.tree.body)
                if not par_is_module_bind:
                    cands.pop(x.id, None)
            elif isinstance(x, ast.arg) and x.arg in cands:
                cands.pop(x.arg, None)
            elif isinstance(x, (ast.Import, ast.ImportFrom)):
                for al in x.names:
                    cands.pop((al.asname or al.name).split(".")[0], None)
        if not cands:
            continue

        class T(ast.NodeTransformer):
            def visit_Name(self, n):
                if isinstance(n.ctx, ast.Load) and n.id in cands:
                    used.add(n.id)
                    return ast.copy_location(_clone_expr(cands[n.id]), n)
                return n
        used = set()
        for fn in [n for n in ast.walk(m.tree) if isinstance(n, (ast.FunctionDef, ast.AsyncFunctionDef))]:
            fn.body = [T().visit(st) for st in fn.body]
        for n in sorted(used):
            done.append((m.name, n))
        if used:
            ast.fix_missing_locations(m.tree)
    return done
