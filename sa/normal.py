"""Normal form of the analysed source (applied once, when a module is indexed).

Rules are written against this normal form, so that two spellings of the same code that differ only by

  N1  else-after-terminator   `if c: ...return/raise/continue/break  else: B`   ==   `if c: ...` followed by B
  N2  adjacent single-use temporaries   `t = E` directly followed by a statement that evaluates `t` exactly once,
      first thing, outside any nested scope / conditional sub-expression, with no other occurrence of `t` in the
      function                                                                  ==   that statement with E for `t`

  N3  nested ifs   `if a: if b: X` (no else on either)                          ==   `if a and b: X`
  N4  negations    `not (a and b)` / `not (a or b)` / `not not a` in tests      ==   `not a or not b` / `not a and not b` / `a`

are the same tree for every rule.  Both rewrites preserve behaviour; line numbers of the surviving nodes are kept, so
reports still point at the real source lines."""
from __future__ import annotations

import ast

_SCOPES = (ast.FunctionDef, ast.AsyncFunctionDef, ast.Lambda, ast.ClassDef, ast.ListComp, ast.SetComp, ast.DictComp, ast.GeneratorExp)


def _terminates(stmts) -> bool:
    if not stmts:
        return False
    last = stmts[-1]
    if isinstance(last, (ast.Return, ast.Raise, ast.Continue, ast.Break)):
        return True
    if isinstance(last, ast.If):
        return _terminates(last.body) and _terminates(last.orelse)
    if isinstance(last, ast.Try):
        if _terminates(last.finalbody):
            return True
        return (_terminates(last.orelse) if last.orelse else _terminates(last.body)) and all(_terminates(h.body) for h in last.handlers)
    if isinstance(last, (ast.With, ast.AsyncWith)):
        return _terminates(last.body)
    return False


def _stmt_lists(fn):
    """(owner, field, list) of every statement list inside function `fn` (own scope and nested blocks; nested
    function definitions are handled on their own)."""
    stack = [fn]
    first = True
    while stack:
        n = stack.pop()
        if not first and isinstance(n, (ast.FunctionDef, ast.AsyncFunctionDef, ast.ClassDef, ast.Lambda)):
            continue
        first = False
        for fld in ("body", "orelse", "finalbody"):
            lst = getattr(n, fld, None)
            if isinstance(lst, list) and lst and isinstance(lst[0], ast.stmt):
                yield n, fld, lst
        for c in ast.iter_child_nodes(n):
            if isinstance(c, (ast.stmt, ast.ExceptHandler, ast.match_case)):
                stack.append(c)


def _unelse(fn) -> int:
    count, changed = 0, True
    while changed:
        changed = False
        for n, fld, lst in list(_stmt_lists(fn)):
            for i, st in enumerate(lst):
                if isinstance(st, ast.If) and st.orelse and _terminates(st.body):
                    rest, st.orelse = st.orelse, []
                    lst[i + 1:i + 1] = rest
                    count += 1
                    changed = True
                    break
            if changed:
                break
    return count


def _head(st):
    if isinstance(st, (ast.Return, ast.Expr)):
        return st.value
    if isinstance(st, ast.Assign):
        # targets such as `a[i] = t` evaluate the value first
        return st.value
    if isinstance(st, (ast.AugAssign,)):
        return None          # the target is read before the value
    if isinstance(st, ast.AnnAssign):
        return st.value
    if isinstance(st, ast.Raise):
        return st.exc if st.cause is None else None
    if isinstance(st, (ast.If, ast.Assert)):
        return st.test
    if isinstance(st, ast.For):
        return st.iter
    return None


def _evaluated_first(head, use) -> bool:
    """`use` (a Name load inside expression `head`) is evaluated before any call / await / yield of `head` completes,
    unconditionally, and outside nested scopes."""
    order = []

    def post(n):
        if isinstance(n, _SCOPES):
            order.append(("scope", n))
            return
        if isinstance(n, ast.IfExp):
            post(n.test)
            order.append(("cond", n))
            return
        if isinstance(n, ast.BoolOp):
            post(n.values[0])
            order.append(("cond", n))
            return
        if isinstance(n, ast.Compare) and len(n.ops) > 1:
            post(n.left)
            post(n.comparators[0])
            order.append(("cond", n))
            return
        if isinstance(n, ast.NamedExpr):
            post(n.value)
            order.append(("call", n))
            return
        for c in ast.iter_child_nodes(n):
            if isinstance(c, ast.expr) or isinstance(c, ast.keyword):
                post(c)
            elif isinstance(c, ast.AST) and not isinstance(c, (ast.expr_context, ast.operator, ast.cmpop, ast.unaryop, ast.boolop)):
                post(c)
        if isinstance(n, (ast.Call, ast.Await, ast.Yield, ast.YieldFrom)):
            order.append(("call", n))
        elif n is use:
            order.append(("use", n))
    post(head)
    for kind, n in order:
        if kind == "use":
            return True
        if kind in ("call", "scope", "cond"):
            # a conditional / nested scope may contain the use: then it is not unconditional
            return False
    return False


def _inline_temps(fn) -> int:
    """A local name all of whose occurrences come in adjacent pairs `t = E` / <statement evaluating t once, first>
    (one pair, or one pair per branch as in `result = ...; return result`) is replaced by E in each pair."""
    count, changed = 0, True
    while changed:
        changed = False
        occ, banned = {}, set()
        for x in ast.walk(fn):
            if isinstance(x, ast.Name):
                occ.setdefault(x.id, []).append(x)
            elif isinstance(x, (ast.Global, ast.Nonlocal)):
                banned.update(x.names)
            elif isinstance(x, ast.arg):
                banned.add(x.arg)
            elif isinstance(x, ast.ExceptHandler) and x.name:
                banned.add(x.name)
        # names that occur inside a nested scope are left alone
        for sc in [n for n in ast.walk(fn) if isinstance(n, _SCOPES) and n is not fn]:
            for x in ast.walk(sc):
                if isinstance(x, ast.Name):
                    banned.add(x.id)
        pairs = {}        # name -> [(list, index, target, value, use, head)]
        for n, fld, lst in list(_stmt_lists(fn)):
            for i in range(len(lst) - 1):
                st, nxt = lst[i], lst[i + 1]
                if isinstance(st, ast.Assign) and len(st.targets) == 1 and isinstance(st.targets[0], ast.Name):
                    t, val = st.targets[0], st.value
                elif isinstance(st, ast.AnnAssign) and isinstance(st.target, ast.Name) and st.value is not None:
                    t, val = st.target, st.value
                else:
                    continue
                if t.id in banned or isinstance(val, (ast.Yield, ast.YieldFrom, ast.Await, ast.Lambda, ast.NamedExpr)):
                    continue
                if any(isinstance(x, ast.Name) and x.id == t.id for x in ast.walk(val)):
                    continue
                head = _head(nxt)
                if head is None:
                    continue
                uses = [x for x in ast.walk(nxt) if isinstance(x, ast.Name) and x.id == t.id]
                if len(uses) != 1 or not isinstance(uses[0].ctx, ast.Load) or not any(x is uses[0] for x in ast.walk(head)):
                    continue
                if not _evaluated_first(head, uses[0]):
                    continue
                pairs.setdefault(t.id, []).append((lst, st, nxt, t, val, uses[0], head))
        for name, ps in pairs.items():
            os_ = occ.get(name, [])
            paired = {id(p[3]) for p in ps} | {id(p[5]) for p in ps}
            if len(os_) != 2 * len(ps) or any(id(o) not in paired for o in os_):
                continue
            # a pair whose use-statement is itself the definition of another pair of the same name cannot occur
            # (the value must not mention the name), so the pairs are independent
            for lst, st, nxt, t, val, use, head in ps:

                class S(ast.NodeTransformer):
                    def visit_Name(self, nd):
                        return val if nd is use else nd
                new_head = S().visit(head)
                for f_ in ("value", "exc", "test", "iter"):
                    if getattr(nxt, f_, None) is head:
                        setattr(nxt, f_, new_head)
                lst[:] = [x for x in lst if x is not st]
                count += 1
            changed = True
            break
    return count


def _merge_nested_ifs(fn) -> int:
    """N3: `if a: if b: X` (neither has an else, the inner if is the whole body) -> `if a and b: X`."""
    count, changed = 0, True
    while changed:
        changed = False
        for n in ast.walk(fn):
            if isinstance(n, ast.If) and not n.orelse and len(n.body) == 1 and isinstance(n.body[0], ast.If) and not n.body[0].orelse:
                inner = n.body[0]
                vals = (n.test.values if isinstance(n.test, ast.BoolOp) and isinstance(n.test.op, ast.And) else [n.test]) + \
                       (inner.test.values if isinstance(inner.test, ast.BoolOp) and isinstance(inner.test.op, ast.And) else [inner.test])
                n.test = ast.copy_location(ast.BoolOp(op=ast.And(), values=list(vals)), n.test)
                n.body = inner.body
                count += 1
                changed = True
    return count


def _nnf(fn) -> int:
    """N4: in the tests of if / while / assert / conditional expressions, negations are pushed through and/or
    (`not (a and b)` -> `not a or not b`, `not (a or b)` -> `not a and not b`, `not not a` -> `a`); same truth value,
    same evaluation order, same short-circuit."""
    count = 0

    def push(e, negate):
        nonlocal count
        if isinstance(e, ast.UnaryOp) and isinstance(e.op, ast.Not):
            if negate or isinstance(e.operand, (ast.BoolOp, ast.UnaryOp)):
                if isinstance(e.operand, ast.BoolOp) or negate or (isinstance(e.operand, ast.UnaryOp) and isinstance(e.operand.op, ast.Not)):
                    count += 1
                    return push(e.operand, not negate)
            return e if not negate else e.operand
        if isinstance(e, ast.BoolOp):
            op = e.op
            if negate:
                op = ast.Or() if isinstance(e.op, ast.And) else ast.And()
            return ast.copy_location(ast.BoolOp(op=op, values=[push(v, negate) for v in e.values]), e)
        if negate:
            return ast.copy_location(ast.UnaryOp(op=ast.Not(), operand=e), e)
        return e
    for n in ast.walk(fn):
        if isinstance(n, (ast.If, ast.While, ast.Assert, ast.IfExp)):
            n.test = push(n.test, False)
    return count


def normalise(tree: ast.AST) -> dict:
    stats = {"unelse": 0, "inlined_temporaries": 0, "merged_ifs": 0, "negations_pushed": 0}
    for fn in [n for n in ast.walk(tree) if isinstance(n, (ast.FunctionDef, ast.AsyncFunctionDef))]:
        stats["unelse"] += _unelse(fn)
        stats["inlined_temporaries"] += _inline_temps(fn)
        stats["merged_ifs"] += _merge_nested_ifs(fn)
        stats["negations_pushed"] += _nnf(fn)
    return stats
