"""E6: abstract evaluation of module-level literal tables and registration loops.

Evaluates, without importing anything, module-level assignments of literals and `for`
loops over such constants whose body calls a registration function, and returns the list
of registration calls with their arguments bound.  Anything outside the fragment raises
AnalysisError (exit 2), never a silent pass.
"""
from __future__ import annotations

import ast

from .flow import call_name, norm
from .index import AnalysisError


class Unknown:
    def __init__(self, text):
        self.text = text

    def __repr__(self):
        return f"<{self.text}>"


def literal(e, env):
    if isinstance(e, ast.Constant):
        return e.value
    if isinstance(e, (ast.List, ast.Tuple, ast.Set)):
        return [literal(x, env) for x in e.elts]
    if isinstance(e, ast.Dict):
        return {literal(k, env): literal(v, env) for k, v in zip(e.keys, e.values)}
    if isinstance(e, ast.Name):
        if e.id in env:
            return env[e.id]
        return Unknown(e.id)
    if isinstance(e, ast.BinOp) and isinstance(e.op, ast.Add):
        a, b = literal(e.left, env), literal(e.right, env)
        if isinstance(a, list) and isinstance(b, list):
            return a + b
    if isinstance(e, ast.UnaryOp) and isinstance(e.op, ast.USub) and isinstance(e.operand, ast.Constant):
        return -e.operand.value
    return Unknown(norm(e))


def bind(target, value, env):
    if isinstance(target, ast.Name):
        env[target.id] = value
    elif isinstance(target, (ast.Tuple, ast.List)):
        if not isinstance(value, (list, tuple)) or len(value) != len(target.elts):
            raise AnalysisError(f"cannot unpack {value!r} into {norm(target)}")
        for t, v in zip(target.elts, value):
            bind(t, v, env)
    else:
        raise AnalysisError(f"unsupported loop target {norm(target)}")


def registrations(module_tree, reg_funcs):
    """[(func_name, positional_args, keyword_args, lineno)] for every module-level call of a
    registration function, directly or inside module-level for-loops over literal tables."""
    env = {}
    out = []

    def call(c, env):
        nm = call_name(c)
        if nm in reg_funcs and isinstance(c.func, ast.Name):
            out.append((nm, [literal(a, env) for a in c.args], {k.arg: literal(k.value, env) for k in c.keywords}, c.lineno))

    def block(stmts, env):
        for st in stmts:
            if isinstance(st, ast.Assign) and len(st.targets) == 1 and isinstance(st.targets[0], ast.Name):
                env[st.targets[0].id] = literal(st.value, env)
            elif isinstance(st, ast.AnnAssign) and isinstance(st.target, ast.Name) and st.value is not None:
                env[st.target.id] = literal(st.value, env)
            elif isinstance(st, ast.AugAssign) and isinstance(st.target, ast.Name) and st.target.id in env:
                cur, add = env[st.target.id], literal(st.value, env)
                if isinstance(st.op, ast.Add) and isinstance(cur, list) and isinstance(add, list):
                    env[st.target.id] = cur + add
                elif isinstance(st.op, ast.BitOr) and isinstance(cur, dict) and isinstance(add, dict):
                    env[st.target.id] = {**cur, **add}
                else:
                    raise AnalysisError(f"module-level table `{st.target.id}` is modified at line {st.lineno} in a way the table evaluator does not model")
            elif isinstance(st, ast.Expr) and isinstance(st.value, ast.Call):
                c = st.value
                if isinstance(c.func, ast.Attribute) and isinstance(c.func.value, ast.Name) and c.func.value.id in env and isinstance(env[c.func.value.id], (list, dict)):
                    tbl, meth = env[c.func.value.id], c.func.attr
                    args = [literal(a, env) for a in c.args]
                    if meth == "append" and isinstance(tbl, list):
                        tbl.append(args[0])
                    elif meth == "extend" and isinstance(tbl, list) and isinstance(args[0], list):
                        tbl.extend(args[0])
                    elif meth == "remove" and isinstance(tbl, list) and args[0] in tbl:
                        tbl.remove(args[0])
                    elif meth == "update" and isinstance(tbl, dict) and args and isinstance(args[0], dict):
                        tbl.update(args[0])
                    elif meth == "pop" and isinstance(tbl, dict) and args:
                        tbl.pop(args[0], None)
                    else:
                        raise AnalysisError(f"module-level table `{c.func.value.id}` is modified by `{norm(c)[:60]}` (line {st.lineno}), which the table evaluator does not model")
                else:
                    call(c, env)
            elif isinstance(st, ast.Delete):
                for t in st.targets:
                    if isinstance(t, ast.Subscript) and isinstance(t.value, ast.Name) and t.value.id in env and isinstance(env[t.value.id], dict):
                        env[t.value.id].pop(literal(t.slice, env), None)
            elif isinstance(st, ast.For):
                it = st.iter
                if isinstance(it, ast.Call) and call_name(it) == "items" and isinstance(it.func, ast.Attribute):
                    table = literal(it.func.value, env)
                    if not isinstance(table, dict):
                        raise AnalysisError(f"loop at line {st.lineno} iterates over a non-literal table `{norm(it)}`")
                    items = [[k, v] for k, v in table.items()]
                else:
                    items = literal(it, env)
                if isinstance(items, Unknown) or not isinstance(items, (list, tuple)):
                    has_reg = any(isinstance(c, ast.Call) and call_name(c) in reg_funcs for c in ast.walk(st))
                    if has_reg:
                        raise AnalysisError(f"registration loop at line {st.lineno} iterates over a non-literal `{norm(it)}`")
                    continue
                for item in items:
                    e2 = dict(env)
                    bind(st.target, item, e2)
                    block(st.body, e2)
    block(module_tree.body, env)
    return out, env
