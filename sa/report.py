"""Obligation bookkeeping, known-findings filter, evidence and exit codes."""
from __future__ import annotations

import json
import os
import sys
import time
import traceback

VERIF = os.path.dirname(os.path.dirname(os.path.abspath(__file__)))
KNOWN = os.path.join(VERIF, "known_findings.json")


def load_known():
    if not os.path.exists(KNOWN):
        return []
    with open(KNOWN) as fh:
        return json.load(fh).get("findings", [])


class Checker:
    def __init__(self, pid: str, tier: str = "quick"):
        self.pid = pid
        self.tier = tier
        self.t0 = time.time()
        self.obligations = []  # dicts
        self.violations = []
        self.known_hits = []
        self.notes = []
        self.floors = []
        self.extra = {}
        self.rules = {}
        self.analysed_functions = set()
        self.assumptions = []
        self.known = [k for k in load_known() if k.get("property") == pid]

    # -- recording ----------------------------------------------------------
    def rule(self, rid: str, text: str):
        self.rules[rid] = text

    def analysed(self, *fis):
        for f in fis:
            self.analysed_functions.add(getattr(f, "qualname", str(f)))

    def ok(self, rule: str, key: str, where: str, detail: str = ""):
        self.obligations.append({"rule": rule, "key": key, "where": where, "verdict": "ok", "detail": detail})

    def fail(self, rule: str, key: str, where: str, detail: str, witness=None):
        rec = {"rule": rule, "key": key, "where": where, "verdict": "VIOLATION", "detail": detail}
        if witness:
            rec["witness"] = witness
        self.obligations.append(rec)
        full = f"{rule}|{key}"
        for k in self.known:
            if k.get("status") == "known" and k.get("key") == full:
                rec["verdict"] = "known-finding"
                self.known_hits.append((k, rec))
                return
        self.violations.append(rec)

    def check(self, cond: bool, rule: str, key: str, where: str, detail_ok: str = "", detail_fail: str = "", witness=None):
        if cond:
            self.ok(rule, key, where, detail_ok)
        else:
            self.fail(rule, key, where, detail_fail or detail_ok, witness)
        return cond

    def floor(self, rule: str, found: int, minimum: int, what: str):
        self.floors.append({"rule": rule, "found": found, "floor": minimum, "what": what})
        if found < minimum:
            from .index import AnalysisError
            raise AnalysisError(f"{rule}: only {found} instance(s) of '{what}' found, confirmed floor is {minimum}")

    def note(self, s: str):
        self.notes.append(s)

    def assume(self, s: str):
        self.assumptions.append(s)

    # -- finishing ----------------------------------------------------------
    def finish(self, explanation: str, status: int = None, error: str = None) -> int:
        ev_dir = os.environ.get("VERIF_EVIDENCE_DIR") or os.path.join(VERIF, "evidence")
        os.makedirs(ev_dir, exist_ok=True)
        vio_dir = os.path.join(ev_dir, "violations")
        lines = []
        for k, rec in self.known_hits:
            lines.append(f"KNOWN-FINDING: property={self.pid} {k.get('what', rec['detail'])} [{rec['rule']}|{rec['key']} at {rec['where']}]")
        seen_known = {id(k) for k, _ in self.known_hits}
        stale = [k for k in self.known if k.get("status") == "known" and id(k) not in seen_known]
        for k in stale:
            self.notes.append(f"known finding not reproduced on this tree (not an error): {k.get('key')}")
        for i, rec in enumerate(self.violations, 1):
            os.makedirs(vio_dir, exist_ok=True)
            path = os.path.join(vio_dir, f"{self.pid}-{i}.json")
            with open(path, "w") as fh:
                json.dump({"property": self.pid, **rec}, fh, indent=1)
            lines.append(f"  {rec['where']}: [{rec['rule']}] {rec['key']}: {rec['detail']}")
            if rec.get("witness"):
                for w in rec["witness"][:12]:
                    lines.append(f"      path: {w}")
            lines.append(f"VIOLATION property={self.pid} replay={path}")
        n_ob = len(self.obligations)
        n_ok = sum(1 for o in self.obligations if o["verdict"] == "ok")
        distinct = len({(o["rule"], o["key"]) for o in self.obligations})
        samples = []
        byrule = {}
        for o in self.obligations:
            byrule.setdefault(o["rule"], []).append(o)
        for r, obs in sorted(byrule.items()):
            for o in obs[:3]:
                samples.append({k: o[k] for k in ("rule", "key", "where", "verdict", "detail")})
        for o in self.obligations:
            if o["verdict"] != "ok" and len(samples) < 80:
                s = {k: o[k] for k in ("rule", "key", "where", "verdict", "detail")}
                if s not in samples:
                    samples.append(s)
        if error is not None:
            code = 2
        elif self.violations:
            code = 1
        else:
            code = 0
        ev = {
            "property_id": self.pid,
            "tier": self.tier,
            "seed": int(os.environ.get("VERIF_SEED", "0") or 0),
            "level": "other",
            "coverage": {
                "explanation": explanation,
                "obligations": n_ob,
                "discharged": n_ok,
                "evaluations": max(n_ob, 1),
                "distinct_nontrivial": distinct,
                "rule": "one obligation per rule instance found in /repo's current source (function, call site, path, table entry or (memo, writer) pair); distinct = distinct (rule, construct) keys; every instance has something to check, vacuous instances are not generated",
                "samples": samples[:80] or [{"note": "no obligations generated"}],
                "rules": self.rules,
                "by_rule": {r: {"instances": len(v), "ok": sum(1 for o in v if o['verdict'] == 'ok')} for r, v in sorted(byrule.items())},
                "functions_analysed": sorted(self.analysed_functions),
                "instance_floors": self.floors,
                "known_findings": [f"{rec['rule']}|{rec['key']}" for _, rec in self.known_hits],
                "notes": self.notes,
                "exhaustive": True,
                "checker_cmd": f"/verif/check {self.pid} --tier {self.tier}",
                "trusted_base": ["CPython ast module", "/verif/sa engine (index, MRO, CFG, dataflow)", "/verif/spec tables"],
                **self.extra,
            },
            "assumptions": self.assumptions,
            "wall_s": round(time.time() - self.t0, 3),
            "violations": len(self.violations),
        }
        if error is not None:
            ev["coverage"]["analysis_error"] = error
        with open(os.path.join(ev_dir, f"{self.pid}.json"), "w") as fh:
            json.dump(ev, fh, indent=1, ensure_ascii=False)
        print(f"[{self.pid}] tier={self.tier} obligations={n_ob} discharged={n_ok} known={len(self.known_hits)} violations={len(self.violations)} functions={len(self.analysed_functions)} wall={ev['wall_s']}s")
        for r, v in sorted(byrule.items()):
            print(f"  rule {r}: {len(v)} instance(s), {sum(1 for o in v if o['verdict']=='ok')} ok")
        for l in lines:
            print(l)
        if error is not None:
            print(f"ANALYSIS-ERROR property={self.pid} {error}")
        return code
