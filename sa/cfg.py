"""E3: statement-level control-flow graph with exceptional edges, and path queries.

Nodes are statements (or the test expression of if/while, the iterator step of for,
the entry of an except handler).  Edge labels: 'n' normal, 't'/'f' branch outcomes,
'exc' exceptional.  ``finally`` bodies are duplicated per continuation (normal /
exceptional / return / break / continue) so that paths stay precise.
"""
from __future__ import annotations

import ast
from dataclasses import dataclass
from typing import Callable, Iterable, Optional


@dataclass
class Node:
    id: int
    kind: str  # entry exit rexit stmt test for except with dispatch join
    ast: Optional[ast.AST]
    stmt: Optional[ast.AST] = None  # enclosing statement for test/for nodes

    @property
    def lineno(self):
        return getattr(self.ast, "lineno", getattr(self.stmt, "lineno", 0))

    def text(self):
        if self.ast is None:
            return self.kind
        try:
            s = ast.unparse(self.ast)
        except Exception:
            s = self.kind
        return s.splitlines()[0][:110]


CATCH_ALL = {"Exception", "BaseException"}


def may_raise_default(node: ast.AST) -> bool:
    """A statement / expression can raise if it contains a call, raise or assert."""
    for n in _walk_no_defs(node):
        if isinstance(n, (ast.Call, ast.Raise, ast.Assert, ast.Await, ast.YieldFrom, ast.Yield)):
            return True
    return False


def _walk_no_defs(node):
    stack = [node]
    while stack:
        n = stack.pop()
        yield n
        for c in ast.iter_child_nodes(n):
            if isinstance(c, (ast.FunctionDef, ast.AsyncFunctionDef, ast.ClassDef, ast.Lambda)):
                continue
            stack.append(c)


class CFG:
    def __init__(self, fn: ast.AST, may_raise: Callable[[ast.AST], bool] = None):
        self.fn = fn
        self.nodes: list[Node] = []
        self.succ: dict[int, list] = {}
        self.pred: dict[int, list] = {}
        self.may_raise = may_raise or may_raise_default
        self.entry = self._new("entry", None)
        self.exit = self._new("exit", None)
        self.rexit = self._new("rexit", None)
        body = fn.body if isinstance(fn.body, list) else [ast.Return(value=fn.body, lineno=getattr(fn, 'lineno', 0))]
        ctx = _Ctx(on_exc=self.rexit, on_return=self.exit, on_break=None, on_continue=None)
        first, outs = self._block(body, ctx)
        self._edge(self.entry, first if first is not None else self.exit, "n")
        for o, lab in outs:
            self._edge(o, self.exit, lab)
        self._by_ast = {}
        for n in self.nodes:
            if n.ast is not None:
                self._by_ast.setdefault(id(n.ast), []).append(n.id)

    # ------------------------------------------------------------ construction
    def _new(self, kind, a, stmt=None) -> int:
        n = Node(len(self.nodes), kind, a, stmt)
        self.nodes.append(n)
        self.succ[n.id] = []
        self.pred[n.id] = []
        return n.id

    def _edge(self, u, v, label):
        if v is None:
            return
        if (v, label) not in self.succ[u]:
            self.succ[u].append((v, label))
            self.pred[v].append((u, label))

    def _block(self, stmts, ctx):
        """Return (first_node_id | None, [(open_node, label)...])."""
        first = None
        outs = None  # None = not started
        for st in stmts:
            f, o = self._stmt(st, ctx)
            if f is None:
                continue
            if first is None:
                first = f
            if outs is not None:
                for (u, lab) in outs:
                    self._edge(u, f, lab)
            outs = o
            if not outs:
                # rest unreachable, but still build it (dead code) detached
                pass
        if first is None:
            return None, []
        return first, outs or []

    def _stmt(self, st, ctx):
        if isinstance(st, (ast.FunctionDef, ast.AsyncFunctionDef, ast.ClassDef)):
            n = self._new("stmt", st)
            return n, [(n, "n")]
        if isinstance(st, ast.If):
            t = self._new("test", st.test, st)
            if self.may_raise(st.test) or ctx.protected:
                self._edge(t, ctx.on_exc_target(self), "exc")
            bf, bo = self._block(st.body, ctx)
            outs = []
            if bf is None:
                outs.append((t, "t"))
            else:
                self._edge(t, bf, "t")
                outs += bo
            ef, eo = self._block(st.orelse, ctx)
            if ef is None:
                outs.append((t, "f"))
            else:
                self._edge(t, ef, "f")
                outs += eo
            return t, outs
        if isinstance(st, ast.While):
            t = self._new("test", st.test, st)
            if self.may_raise(st.test):
                self._edge(t, ctx.on_exc_target(self), "exc")
            after = self._new("join", None, st)
            lctx = ctx.derive(on_break=after, on_continue=t)
            bf, bo = self._block(st.body, lctx)
            if bf is None:
                self._edge(t, t, "t")
            else:
                self._edge(t, bf, "t")
                for (u, lab) in bo:
                    self._edge(u, t, lab)
            const_true = isinstance(st.test, ast.Constant) and bool(st.test.value)
            if not const_true:
                ef, eo = self._block(st.orelse, ctx)
                if ef is None:
                    self._edge(t, after, "f")
                else:
                    self._edge(t, ef, "f")
                    for (u, lab) in eo:
                        self._edge(u, after, lab)
            return t, [(after, "n")]
        if isinstance(st, (ast.For, ast.AsyncFor)):
            t = self._new("for", st.iter, st)
            self._edge(t, ctx.on_exc_target(self), "exc")
            after = self._new("join", None, st)
            lctx = ctx.derive(on_break=after, on_continue=t)
            bf, bo = self._block(st.body, lctx)
            if bf is None:
                self._edge(t, t, "t")
            else:
                self._edge(t, bf, "t")
                for (u, lab) in bo:
                    self._edge(u, t, lab)
            ef, eo = self._block(st.orelse, ctx)
            if ef is None:
                self._edge(t, after, "f")
            else:
                self._edge(t, ef, "f")
                for (u, lab) in eo:
                    self._edge(u, after, lab)
            return t, [(after, "n")]
        if isinstance(st, (ast.With, ast.AsyncWith)):
            w = self._new("with", st, st)
            self._edge(w, ctx.on_exc_target(self), "exc")
            bf, bo = self._block(st.body, ctx)
            if bf is None:
                return w, [(w, "n")]
            self._edge(w, bf, "n")
            return w, bo
        if isinstance(st, ast.Try) or st.__class__.__name__ == "TryStar":
            return self._try(st, ctx)
        if isinstance(st, ast.Return):
            n = self._new("stmt", st)
            if st.value is not None and (self.may_raise(st.value) or (ctx.protected and not isinstance(st.value, (ast.Constant, ast.Name)))):
                self._edge(n, ctx.on_exc_target(self), "exc")
            self._edge(n, ctx.on_return_target(self), "n")
            return n, []
        if isinstance(st, ast.Raise):
            n = self._new("stmt", st)
            self._edge(n, ctx.on_exc_target(self), "exc")
            return n, []
        if isinstance(st, ast.Break):
            n = self._new("stmt", st)
            self._edge(n, ctx.on_break_target(self), "n")
            return n, []
        if isinstance(st, ast.Continue):
            n = self._new("stmt", st)
            self._edge(n, ctx.on_continue_target(self), "n")
            return n, []
        if st.__class__.__name__ == "Match":
            n = self._new("test", st.subject, st)
            outs = []
            for case in st.cases:
                bf, bo = self._block(case.body, ctx)
                if bf is None:
                    outs.append((n, "t"))
                else:
                    self._edge(n, bf, "t")
                    outs += bo
            outs.append((n, "f"))
            return n, outs
        # simple statement
        n = self._new("stmt", st)
        if self.may_raise(st) or (ctx.protected and not isinstance(st, ast.Pass)):
            self._edge(n, ctx.on_exc_target(self), "exc")
        return n, [(n, "n")]

    def _try(self, st, ctx):
        has_finally = bool(st.finalbody)
        cache = {}

        def via_finally(target_getter, key):
            """Continuation that runs a fresh copy of finalbody then goes to target."""
            if not has_finally:
                return target_getter
            def get(cfg):
                if key in cache:
                    return cache[key]
                tgt = target_getter(cfg)
                j = cfg._new("join", None, st)
                cache[key] = j
                ff, fo = cfg._block(st.finalbody, ctx)
                if ff is None:
                    cfg._edge(j, tgt, "n")
                else:
                    cfg._edge(j, ff, "n")
                    for (u, lab) in fo:
                        cfg._edge(u, tgt, lab)
                return j
            return get

        outer_exc = via_finally(ctx.on_exc_target, "exc")
        inner_ret = via_finally(ctx.on_return_target, "ret")
        inner_brk = via_finally(ctx.on_break_target, "brk") if ctx.on_break is not None or ctx._brk else None
        inner_cnt = via_finally(ctx.on_continue_target, "cnt") if ctx.on_continue is not None or ctx._cnt else None

        # handlers context: exceptions inside handlers go to outer (through finally)
        hctx = _Ctx(None, None, None, None, _exc=outer_exc, _ret=inner_ret, _brk=inner_brk, _cnt=inner_cnt, protected=ctx.protected)
        dispatch = None
        if st.handlers:
            dispatch = self._new("dispatch", None, st)
            catch_all = False
            for h in st.handlers:
                hn = self._new("except", h, st)
                self._edge(dispatch, hn, "exc")
                bf, bo = self._block(h.body, hctx)
                h._entry = hn
                if bf is None:
                    h._outs = [(hn, "n")]
                else:
                    self._edge(hn, bf, "n")
                    h._outs = bo
                if h.type is None:
                    catch_all = True
                else:
                    names = [h.type] if not isinstance(h.type, ast.Tuple) else h.type.elts
                    for nm in names:
                        s = nm.id if isinstance(nm, ast.Name) else (nm.attr if isinstance(nm, ast.Attribute) else "")
                        if s in CATCH_ALL:
                            catch_all = True
            if not catch_all:
                self._edge(dispatch, outer_exc(self), "exc")
            body_exc = lambda cfg: dispatch
        else:
            body_exc = outer_exc
        bctx = _Ctx(None, None, None, None, _exc=body_exc, _ret=inner_ret, _brk=inner_brk, _cnt=inner_cnt, protected=bool(st.handlers) or ctx.protected)
        bf, bo = self._block(st.body, bctx)
        # else clause runs after body, exceptions there are not caught by handlers
        ectx = hctx
        outs = []
        if st.orelse:
            ef, eo = self._block(st.orelse, ectx)
            if ef is not None:
                for (u, lab) in bo:
                    self._edge(u, ef, lab)
                bo = eo
        normal_outs = list(bo)
        for h in st.handlers:
            normal_outs += h._outs
        first = bf
        if first is None:
            # empty body (impossible syntactically) – fall through
            j = self._new("join", None, st)
            first = j
            normal_outs.append((j, "n"))
        if has_finally:
            j = self._new("join", None, st)
            for (u, lab) in normal_outs:
                self._edge(u, j, lab)
            ff, fo = self._block(st.finalbody, ctx)
            if ff is None:
                outs = [(j, "n")]
            else:
                self._edge(j, ff, "n")
                outs = fo
        else:
            outs = normal_outs
        return first, outs

    # ------------------------------------------------------------ queries
    def nodes_where(self, pred: Callable[[Node], bool]) -> list[int]:
        return [n.id for n in self.nodes if pred(n)]

    def nodes_for_ast(self, a: ast.AST) -> list[int]:
        """CFG nodes (all finally-copies) whose statement is / contains the ast node."""
        out = list(self._by_ast.get(id(a), []))
        if out:
            return out
        for n in self.nodes:
            if n.ast is None:
                continue
            for sub in _walk_no_defs(n.ast):
                if sub is a:
                    out.append(n.id)
                    break
        return out

    def reach(self, starts: Iterable[int], avoid: Iterable[int] = (), avoid_edges: Iterable[tuple] = (),
              labels: Optional[set] = None) -> set:
        """Nodes reachable from `starts` without entering `avoid` nodes or taking
        edges (u,label) in avoid_edges; `labels` restricts the edge labels followed."""
        avoid = set(avoid)
        avoid_edges = set(avoid_edges)
        seen = set()
        stack = [s for s in starts if s not in avoid]
        while stack:
            u = stack.pop()
            if u in seen:
                continue
            seen.add(u)
            for (v, lab) in self.succ[u]:
                if labels is not None and lab not in labels:
                    continue
                if (u, lab) in avoid_edges or v in avoid or v in seen:
                    continue
                stack.append(v)
        return seen

    def reachable_nodes(self) -> set:
        return self.reach([self.entry])

    def path(self, start: int, goals: Iterable[int], avoid: Iterable[int] = (), avoid_edges=()) -> Optional[list]:
        """A witness path (list of node ids) from start to any goal avoiding `avoid`."""
        goals = set(goals)
        avoid = set(avoid)
        avoid_edges = set(avoid_edges)
        from collections import deque
        prev = {start: None}
        dq = deque([start])
        while dq:
            u = dq.popleft()
            if u in goals and u != start:
                out = []
                while u is not None:
                    out.append(u)
                    u = prev[u]
                return out[::-1]
            for (v, lab) in self.succ[u]:
                if v in prev or v in avoid or (u, lab) in avoid_edges:
                    continue
                prev[v] = u
                dq.append(v)
        if start in goals:
            return [start]
        return None

    def all_paths_pass(self, start: int, goals: Iterable[int], gates: Iterable[int], avoid_edges=()) -> Optional[list]:
        """None if every path start->goal passes a gate; else a witness path avoiding gates."""
        gates = set(gates)
        goals = set(goals) - gates
        if start in gates:
            return None
        return self.path(start, goals, avoid=gates, avoid_edges=avoid_edges)

    def describe_path(self, path: list, fi=None) -> list:
        out = []
        for nid in path:
            n = self.nodes[nid]
            if n.kind in ("join", "dispatch"):
                continue
            out.append(f"L{n.lineno}:{n.kind}:{n.text()}" if n.ast is not None else n.kind)
        return out


class _Ctx:
    def __init__(self, on_exc, on_return, on_break, on_continue, _exc=None, _ret=None, _brk=None, _cnt=None, protected=False):
        self.protected = protected  # inside a try body with handlers: any statement may raise (implicit exceptions)
        self.on_exc = on_exc
        self.on_return = on_return
        self.on_break = on_break
        self.on_continue = on_continue
        self._exc = _exc
        self._ret = _ret
        self._brk = _brk
        self._cnt = _cnt

    def on_exc_target(self, cfg):
        return self._exc(cfg) if self._exc else self.on_exc

    def on_return_target(self, cfg):
        return self._ret(cfg) if self._ret else self.on_return

    def on_break_target(self, cfg):
        return self._brk(cfg) if self._brk else self.on_break

    def on_continue_target(self, cfg):
        return self._cnt(cfg) if self._cnt else self.on_continue

    def derive(self, on_break, on_continue):
        c = _Ctx(self.on_exc, self.on_return, on_break, on_continue, self._exc, self._ret, None, None, protected=self.protected)
        return c
