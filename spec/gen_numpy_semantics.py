#!/usr/bin/env python3
"""Generates spec/numpy_semantics.json: for each NumPy name its dimensional class and the set of
acceptable (input policy, output policy) pairs of pint's generic wrapper.  Curated from the NumPy
reference (what each function computes), independent of pint's tables.  A policy is
[input_units, output_unit] as passed to implement_func; for by-argument wrappers it is
{"args": [...], "wrap": bool}.  Where mathematics allows several policies all are listed."""
import json, os

AC, MI = "all_consistent", "match_input"
CLASSES = {
 "UNIT_BLIND": [[None, None]],
 "COMPARE": [[AC, None]],
 "HOMOG1": [[AC, MI]],
 "UNARY_KEEP": [[AC, MI], [None, MI]],
 "MUL": [[None, "mul"]], "DIV": [[None, "div"]], "SQUARE": [[None, "square"]], "SQRT": [[None, "sqrt"]], "CBRT": [[None, "cbrt"]],
 "RECIPROCAL": [[None, "reciprocal"]], "SUMLIKE": [[None, "sum"]], "VARIANCE": [[None, "variance"], [None, "square"]],
 "DELTA": [[None, "delta"]], "DELTA_DIV": [[None, "delta,div"]], "INVDIV": [[None, "invdiv"]],
 "FLOORDIV": [[AC, ""], [AC, "dimensionless"]],
 "LDEXP": [[None, MI]],
 "ANGLE_IN": [["radian", ""], ["radian", "dimensionless"], ["", ""]],
 "ANGLE_OUT": [["", "radian"], ["dimensionless", "radian"]],
 "DIMLESS": [["", ""], ["dimensionless", "dimensionless"], ["", "dimensionless"], ["dimensionless", ""]],
 "DEG2RAD": [["degree", "radian"]], "RAD2DEG": [["radian", "degree"]],
 "ATAN2": [[AC, "radian"]],
}
U = {}  # ufuncs
for n in ("isnan", "isinf", "isfinite", "signbit", "sign"): U[n] = "UNIT_BLIND"
for n in ("equal", "greater", "greater_equal", "less", "less_equal", "not_equal"): U[n] = "COMPARE"
for n in ("hypot", "maximum", "minimum", "fmax", "fmin", "nextafter", "copysign", "fmod", "mod", "remainder"): U[n] = "HOMOG1"
for n in ("ceil", "floor", "rint", "trunc", "absolute", "fabs", "positive", "negative", "conj", "conjugate"): U[n] = "UNARY_KEEP"
U.update({"multiply": "MUL", "matmul": "MUL", "true_divide": "DIV", "divide": "DIV", "floor_divide": "FLOORDIV", "sqrt": "SQRT", "cbrt": "CBRT", "square": "SQUARE", "reciprocal": "RECIPROCAL", "ldexp": "LDEXP", "arctan2": "ATAN2"})
for n in ("sin", "cos", "tan", "sinh", "cosh", "tanh"): U[n] = "ANGLE_IN"
for n in ("arccos", "arcsin", "arctan", "arccosh", "arcsinh", "arctanh"): U[n] = "ANGLE_OUT"
for n in ("exp", "expm1", "exp2", "log", "log10", "log1p", "log2", "logaddexp", "logaddexp2", "cumprod"): U[n] = "DIMLESS"
for n in ("radians", "deg2rad"): U[n] = "DEG2RAD"
for n in ("degrees", "rad2deg"): U[n] = "RAD2DEG"
# ndarray-method names that live in the ufunc tables of pint (used by _numpy_method_wrap)
for n in ("compress", "copy", "diagonal", "max", "mean", "min", "ptp", "ravel", "repeat", "reshape", "round", "squeeze", "swapaxes", "take", "trace", "transpose", "roll"): U[n] = "UNARY_KEEP"
U.update({"var": "VARIANCE", "std": "SUMLIKE", "sum": "SUMLIKE", "cumsum": "SUMLIKE"})
F = {}  # functions registered through implement_func
for n in ("size", "isreal", "iscomplex", "shape", "ones_like", "zeros_like", "empty_like", "argsort", "argmin", "argmax", "ndim", "nanargmax", "nanargmin", "count_nonzero", "nonzero", "result_type"): F[n] = "UNIT_BLIND"
for n in ("block", "hstack", "vstack", "dstack", "column_stack", "broadcast_arrays"): F[n] = "HOMOG1"
for n in ("std", "nanstd", "sum", "nansum", "cumsum", "nancumsum", "linalg.norm"): F[n] = "SUMLIKE"
for n in ("diff", "ediff1d"): F[n] = "DELTA"
F.update({"gradient": "DELTA_DIV", "linalg.solve": "INVDIV", "var": "VARIANCE", "nanvar": "VARIANCE"})
# by-argument wrappers: which NumPy parameters carry the quantity's unit and whether the output does
A = {}
for n, arg in (("expand_dims", "a"), ("squeeze", "a"), ("rollaxis", "a"), ("moveaxis", "a"), ("around", "a"), ("diagonal", "a"), ("mean", "a"), ("ptp", "a"), ("ravel", "a"), ("round_", "a"), ("round", "a"), ("sort", "a"),
               ("median", "a"), ("nanmedian", "a"), ("transpose", "a"), ("roll", "a"), ("copy", "a"), ("average", "a"), ("nanmean", "a"), ("swapaxes", "a"), ("nanmin", "a"), ("nanmax", "a"), ("percentile", "a"),
               ("nanpercentile", "a"), ("quantile", "a"), ("nanquantile", "a"), ("flip", "m"), ("fix", "x"), ("compress", "a"), ("tile", "A"), ("lib.stride_tricks.sliding_window_view", "x"), ("rot90", "m"), ("resize", "a"), ("reshape", "a")):
    A[n] = {"args": [arg], "wrap": True}
A.update({"trim_zeros": {"args": ["filt"], "wrap": True}, "broadcast_to": {"args": ["array"], "wrap": True}, "delete": {"args": ["arr"], "wrap": True},
          "amax": {"args": ["a", "initial"], "wrap": True}, "amin": {"args": ["a", "initial"], "wrap": True}, "max": {"args": ["a", "initial"], "wrap": True}, "min": {"args": ["a", "initial"], "wrap": True},
          "searchsorted": {"args": ["a", "v"], "wrap": False}, "nan_to_num": {"args": ["x", "nan", "posinf", "neginf"], "wrap": True}, "clip": {"args": ["a", "a_min", "a_max"], "wrap": True},
          "append": {"args": ["arr", "values"], "wrap": True}, "linspace": {"args": ["start", "stop"], "wrap": True}, "insert": {"args": ["arr", "values"], "wrap": True}, "intersect1d": {"args": ["ar1", "ar2"], "wrap": True}})
out = os.path.join(os.path.dirname(os.path.abspath(__file__)), "numpy_semantics.json")
json.dump({"_comment": "generated by gen_numpy_semantics.py", "classes": CLASSES, "ufunc": U, "function": F, "by_argument": A}, open(out, "w"), indent=0)
print(len(U), len(F), len(A))
