#!/usr/bin/env python3
"""Generates spec/standard_values.json: an independently curated table of internationally
standardised values (SI brochure 9th ed. 2019 + 2022 prefixes, NIST SP 811 / Handbook 44,
the 1959 international yard and pound agreement, UK Weights and Measures Act 1985, CODATA
2022).  Every derived entry is computed here from the primitive standard definitions with
exact rational arithmetic; nothing is read from pint.  Values are SI-coherent (m, kg, s, A,
K, mol, cd; angles in rad).  Run this file to regenerate the JSON after editing the table.
"""
import json
import os
from fractions import Fraction as F

D = lambda s: F(str(s))

# ---- primitive standard definitions -------------------------------------------------
inch = D("0.0254")            # international inch (1959): yard = 0.9144 m exactly
foot = 12 * inch
yard = 3 * foot
mile = 1760 * yard
lb = D("0.45359237")          # international avoirdupois pound (1959), kg
grain = lb / 7000             # 64.79891 mg
g0 = D("9.80665")             # standard gravity (CGPM 1901)
atm = D("101325")             # standard atmosphere (CGPM 1954)
sft = F(1200, 3937)           # US survey foot (1893 Mendenhall order)
gal = 231 * inch ** 3         # US liquid gallon
igal = D("4.54609") / 1000    # imperial gallon (UK 1985), m^3
bushel = D("2150.42") * inch ** 3
cal_th = D("4.184")
cal_it = D("4.1868")
btu_iso = D("1055.056")
c = F(299792458)
h = D("6.62607015e-34")
e = D("1.602176634e-19")
k = D("1.380649e-23")
NA = D("6.02214076e23")
au = F(149597870700)
nmi = F(1852)
day = F(86400)
jyear = D("365.25") * day
rho_hg = D("13595.1")         # conventional mercury kg/m^3 (ISO 31-3 / BS 350)
rho_w = F(1000)               # conventional water
L = F(1, 1000)

L1 = {"[length]": 1}
A2 = {"[length]": 2}
V3 = {"[length]": 3}
M1 = {"[mass]": 1}
T1 = {"[time]": 1}
FORCE = {"[mass]": 1, "[length]": 1, "[time]": -2}
PRESS = {"[mass]": 1, "[length]": -1, "[time]": -2}
ENERGY = {"[mass]": 1, "[length]": 2, "[time]": -2}
POWER = {"[mass]": 1, "[length]": 2, "[time]": -3}
SPEED = {"[length]": 1, "[time]": -1}
FREQ = {"[time]": -1}
CHARGE = {"[current]": 1, "[time]": 1}
VOLT = {"[mass]": 1, "[length]": 2, "[time]": -3, "[current]": -1}
OHM = {"[mass]": 1, "[length]": 2, "[time]": -3, "[current]": -2}
TEMP = {"[temperature]": 1}
NONE = {}

E = []


def u(name, si, dims, symbol=None, src="", kind="unit", **kw):
    rec = {"name": name, "kind": kind, "si": f"{F(si).numerator}/{F(si).denominator}", "dims": dims, "source": src}
    if symbol is not None:
        rec["symbol"] = symbol if isinstance(symbol, list) else [symbol]
    rec.update(kw)
    E.append(rec)


# ---- prefixes -----------------------------------------------------------------------
SI_PREFIXES = [("quecto", -30, "q"), ("ronto", -27, "r"), ("yocto", -24, "y"), ("zepto", -21, "z"), ("atto", -18, "a"), ("femto", -15, "f"),
               ("pico", -12, "p"), ("nano", -9, "n"), ("micro", -6, "µ"), ("milli", -3, "m"), ("centi", -2, "c"), ("deci", -1, "d"),
               ("deca", 1, "da"), ("hecto", 2, "h"), ("kilo", 3, "k"), ("mega", 6, "M"), ("giga", 9, "G"), ("tera", 12, "T"), ("peta", 15, "P"),
               ("exa", 18, "E"), ("zetta", 21, "Z"), ("yotta", 24, "Y"), ("ronna", 27, "R"), ("quetta", 30, "Q")]
for n, p, s in SI_PREFIXES:
    E.append({"name": n, "kind": "prefix", "si": f"{(F(10) ** p).numerator}/{(F(10) ** p).denominator}", "symbol": [s], "source": "SI brochure 9th ed. table 7 (+ CGPM 2022 Res. 3)"})
for i, (n, s) in enumerate([("kibi", "Ki"), ("mebi", "Mi"), ("gibi", "Gi"), ("tebi", "Ti"), ("pebi", "Pi"), ("exbi", "Ei"), ("zebi", "Zi"), ("yobi", "Yi")], 1):
    E.append({"name": n, "kind": "prefix", "si": f"{2 ** (10 * i)}/1", "symbol": [s], "source": "IEC 80000-13"})

# ---- SI base and derived units ------------------------------------------------------
S = "SI brochure 9th ed."
u("meter", 1, L1, "m", S); u("second", 1, T1, "s", S); u("ampere", 1, {"[current]": 1}, "A", S); u("kelvin", 1, TEMP, "K", S)
u("mole", 1, {"[substance]": 1}, "mol", S); u("candela", 1, {"[luminosity]": 1}, "cd", S); u("gram", F(1, 1000), M1, "g", S)
u("radian", 1, NONE, "rad", S); u("steradian", 1, NONE, "sr", S)
u("hertz", 1, FREQ, "Hz", S); u("newton", 1, FORCE, "N", S); u("pascal", 1, PRESS, "Pa", S); u("joule", 1, ENERGY, "J", S); u("watt", 1, POWER, "W", S)
u("coulomb", 1, CHARGE, "C", S); u("volt", 1, VOLT, "V", S); u("ohm", 1, OHM, "Ω", S)
u("farad", 1, {"[mass]": -1, "[length]": -2, "[time]": 4, "[current]": 2}, "F", S)
u("siemens", 1, {"[mass]": -1, "[length]": -2, "[time]": 3, "[current]": 2}, "S", S)
u("weber", 1, {"[mass]": 1, "[length]": 2, "[time]": -2, "[current]": -1}, "Wb", S)
u("tesla", 1, {"[mass]": 1, "[time]": -2, "[current]": -1}, "T", S)
u("henry", 1, {"[mass]": 1, "[length]": 2, "[time]": -2, "[current]": -2}, "H", S)
u("lumen", 1, {"[luminosity]": 1}, "lm", S); u("lux", 1, {"[luminosity]": 1, "[length]": -2}, "lx", S)
u("becquerel", 1, FREQ, "Bq", S); u("gray", 1, {"[length]": 2, "[time]": -2}, "Gy", S); u("sievert", 1, {"[length]": 2, "[time]": -2}, "Sv", S)
u("katal", 1, {"[substance]": 1, "[time]": -1}, "kat", S)
# non-SI units accepted for use with the SI (table 8)
u("minute", 60, T1, "min", S); u("hour", 3600, T1, "h", S); u("day", 86400, T1, "d", S)
u("hectare", 10 ** 4, A2, "ha", S); u("liter", L, V3, ["l", "L"], S); u("metric_ton", 1000, M1, "t", S)
u("astronomical_unit", au, L1, "au", S + " / IAU 2012 B2"); u("electron_volt", e, ENERGY, "eV", S)
# temperature scales
u("degree_Celsius", 1, TEMP, "°C", S, kind="offset_unit", offset=str(D("273.15")))
u("degree_Fahrenheit", F(5, 9), TEMP, "°F", "NIST SP 811 B.8: T/K = (t/°F + 459.67)/1.8", kind="offset_unit", offset=str(D("459.67") * F(5, 9)))
u("degree_Rankine", F(5, 9), TEMP, "°R", "NIST SP 811 B.8", kind="offset_unit", offset="0")
u("degree_Reaumur", F(5, 4), TEMP, None, "1 °Ré = 1.25 K, 0 °Ré = 273.15 K", kind="offset_unit", offset=str(D("273.15")))

# ---- defining and conventional constants -----------------------------------------------
C9 = "SI brochure 9th ed. (2019 defining constants)"
u("speed_of_light", c, SPEED, "c", C9, kind="constant"); u("planck_constant", h, {"[mass]": 1, "[length]": 2, "[time]": -1}, None, C9, kind="constant")
u("elementary_charge", e, CHARGE, "e", C9, kind="constant"); u("boltzmann_constant", k, {"[mass]": 1, "[length]": 2, "[time]": -2, "[temperature]": -1}, "k", C9, kind="constant")
u("avogadro_constant", NA, {"[substance]": -1}, "N_A", C9, kind="constant"); u("avogadro_number", NA, NONE, None, C9, kind="constant")
u("standard_gravity", g0, {"[length]": 1, "[time]": -2}, "g_0", "3rd CGPM 1901", kind="constant")
u("standard_atmosphere", atm, PRESS, "atm", "10th CGPM 1954 Res. 4", kind="constant")
u("conventional_josephson_constant", D("483597.9e9"), {"[mass]": -1, "[length]": -2, "[time]": 2, "[current]": 1}, "K_J90", "CIPM 1988 Rec. 1", kind="constant")
u("conventional_von_klitzing_constant", D("25812.807"), OHM, "R_K90", "CIPM 1988 Rec. 2", kind="constant")
u("molar_gas_constant", k * NA, {"[mass]": 1, "[length]": 2, "[time]": -2, "[temperature]": -1, "[substance]": -1}, "R", "R = k N_A (exact since 2019)", kind="constant")
u("faraday_constant", e * NA, {"[current]": 1, "[time]": 1, "[substance]": -1}, None, "F = e N_A (exact since 2019)", kind="constant")
u("josephson_constant", 2 * e / h, {"[mass]": -1, "[length]": -2, "[time]": 2, "[current]": 1}, "K_J", "K_J = 2e/h", kind="constant")
u("von_klitzing_constant", h / e ** 2, OHM, "R_K", "R_K = h/e^2", kind="constant")
u("conductance_quantum", 2 * e ** 2 / h, {"[mass]": -1, "[length]": -2, "[time]": 3, "[current]": 2}, "G_0", "G_0 = 2e^2/h", kind="constant")
u("magnetic_flux_quantum", h / (2 * e), {"[mass]": 1, "[length]": 2, "[time]": -2, "[current]": -1}, "Φ_0", "Φ_0 = h/2e", kind="constant")

# ---- international yard and pound: length -------------------------------------------------
Y = "international yard and pound agreement 1959; NIST SP 811 B.8/B.9"
u("inch", inch, L1, "in", Y); u("foot", foot, L1, "ft", Y); u("yard", yard, L1, "yd", Y); u("mile", mile, L1, "mi", Y)
u("thou", inch / 1000, L1, "th", Y); u("hand", 4 * inch, L1, None, Y)
u("nautical_mile", nmi, L1, "nmi", "First International Extraordinary Hydrographic Conference 1929")
u("angstrom", D("1e-10"), L1, "Å", "NIST SP 811"); u("micron", D("1e-6"), L1, None, "CIPM 1879"); u("fermi", D("1e-15"), L1, "fm", "NIST SP 811")
u("light_year", c * jyear, L1, "ly", "IAU: c x Julian year")
H44 = "NIST Handbook 44 Appendix C (US survey measure)"
u("survey_foot", sft, L1, "sft", H44); u("fathom", 6 * sft, L1, None, H44); u("rod", D("16.5") * sft, L1, "rd", H44); u("chain", 66 * sft, L1, None, H44)
u("link", D("0.66") * sft, L1, "li", H44); u("furlong", 660 * sft, L1, "fur", H44); u("survey_mile", 5280 * sft, L1, None, H44); u("league", 3 * 5280 * sft, L1, None, H44)
u("cables_length", 720 * sft, L1, None, "US Navy cable = 120 fathoms")
u("pica", inch / 6, L1, None, "PostScript pica"); u("point", inch / 72, L1, None, "PostScript (big) point"); u("tex_point", inch / D("72.27"), L1, None, "TeX point"); u("css_pixel", inch / 96, L1, "px", "CSS reference pixel")
u("didot", F(1, 2660), L1, None, "1 didot = 1/2660 m"); u("scaled_point", inch / D("72.27") / 65536, L1, None, "TeX sp")
# area
u("are", 100, A2, None, S); u("barn", D("1e-28"), A2, "b", "NIST SP 811"); u("square_inch", inch ** 2, A2, None, Y); u("square_foot", foot ** 2, A2, None, Y)
u("square_yard", yard ** 2, A2, None, Y); u("square_mile", mile ** 2, A2, None, Y); u("acre", 43560 * sft ** 2, A2, None, H44); u("square_rod", (D("16.5") * sft) ** 2, A2, None, H44)
# volume
u("cubic_inch", inch ** 3, V3, None, Y); u("cubic_foot", foot ** 3, V3, None, Y); u("cubic_yard", yard ** 3, V3, None, Y); u("cubic_centimeter", D("1e-6"), V3, "cc", S); u("stere", 1, V3, None, S)
US = "NIST Handbook 44 Appendix C (US liquid/dry measure)"
u("gallon", gal, V3, "gal", US); u("quart", gal / 4, V3, "qt", US); u("pint", gal / 8, V3, "pt", US); u("cup", gal / 16, V3, None, US); u("gill", gal / 32, V3, "gi", US)
u("fluid_ounce", gal / 128, V3, None, US); u("fluid_dram", gal / 1024, V3, None, US); u("minim", gal / 61440, V3, None, US)
u("tablespoon", gal / 256, V3, "tbsp", US); u("teaspoon", gal / 768, V3, "tsp", US); u("fifth", gal / 5, V3, None, US)
u("barrel", D("31.5") * gal, V3, "bbl", US); u("oil_barrel", 42 * gal, V3, None, US); u("hogshead", 63 * gal, V3, None, US); u("beer_barrel", 31 * gal, V3, None, US)
u("bushel", bushel, V3, "bu", US); u("peck", bushel / 4, V3, "pk", US); u("dry_gallon", bushel / 8, V3, None, US); u("dry_quart", bushel / 32, V3, None, US); u("dry_pint", bushel / 64, V3, None, US)
u("dry_barrel", 7056 * inch ** 3, V3, None, US); u("board_foot", 144 * inch ** 3, V3, None, "1 ft x 1 ft x 1 in"); u("acre_foot", 43560 * sft ** 3, V3, None, H44)
UK = "UK Weights and Measures Act 1985"
u("imperial_gallon", igal, V3, None, UK); u("imperial_quart", igal / 4, V3, None, UK); u("imperial_pint", igal / 8, V3, None, UK); u("imperial_gill", igal / 32, V3, None, UK)
u("imperial_fluid_ounce", igal / 160, V3, None, UK); u("imperial_fluid_drachm", igal / 1280, V3, None, UK); u("imperial_fluid_scruple", igal / 3840, V3, None, UK); u("imperial_minim", igal / 76800, V3, None, UK)
u("imperial_peck", 2 * igal, V3, None, UK); u("imperial_bushel", 8 * igal, V3, None, UK); u("imperial_barrel", 36 * igal, V3, None, UK)
# mass
u("pound", lb, M1, "lb", Y); u("ounce", lb / 16, M1, "oz", Y); u("dram", lb / 256, M1, "dr", Y); u("grain", grain, M1, "gr", Y); u("stone", 14 * lb, M1, None, UK)
u("quarter", 28 * lb, M1, None, UK + ": quarter = 28 lb (a quarter of a long hundredweight)")
u("hundredweight", 100 * lb, M1, "cwt", "US short hundredweight, NIST Handbook 44"); u("long_hundredweight", 112 * lb, M1, None, UK)
u("ton", 2000 * lb, M1, None, "US short ton"); u("long_ton", 2240 * lb, M1, None, UK); u("carat", D("2e-4"), M1, "ct", "4th CGPM 1907")
u("pennyweight", 24 * grain, M1, "dwt", "troy"); u("troy_ounce", 480 * grain, M1, None, "troy"); u("troy_pound", 5760 * grain, M1, None, "troy")
u("scruple", 20 * grain, M1, None, "apothecaries"); u("apothecary_dram", 60 * grain, M1, None, "apothecaries"); u("apothecary_ounce", 480 * grain, M1, None, "apothecaries"); u("apothecary_pound", 5760 * grain, M1, None, "apothecaries")
u("slug", lb * g0 / foot, M1, None, "1 slug = 1 lbf s^2/ft"); u("bag", 94 * lb, M1, None, "US bag of cement")
# force
u("force_pound", lb * g0, FORCE, "lbf", Y + " x g_0"); u("force_kilogram", g0, FORCE, "kgf", "CGPM 1901"); u("force_gram", g0 / 1000, FORCE, "gf", "CGPM 1901"); u("dyne", D("1e-5"), FORCE, "dyn", "CGS")
u("poundal", lb * foot, FORCE, "pdl", "1 pdl = 1 lb ft/s^2"); u("kip", 1000 * lb * g0, FORCE, None, "1 kip = 1000 lbf"); u("force_ounce", lb * g0 / 16, FORCE, "ozf", Y)
u("force_ton", 2000 * lb * g0, FORCE, None, Y); u("force_long_ton", 2240 * lb * g0, FORCE, None, Y); u("force_metric_ton", 1000 * g0, FORCE, "tf", "CGPM 1901")
# pressure
u("bar", 10 ** 5, PRESS, "bar", S); u("barye", D("0.1"), PRESS, "Ba", "CGS"); u("torr", atm / 760, PRESS, None, "1 Torr = 101325/760 Pa"); u("technical_atmosphere", g0 * 10 ** 4, PRESS, "at", "1 at = 1 kgf/cm^2")
u("pound_force_per_square_inch", lb * g0 / inch ** 2, PRESS, "psi", Y); u("kip_per_square_inch", 1000 * lb * g0 / inch ** 2, PRESS, "ksi", Y)
u("millimeter_Hg", rho_hg * g0 / 1000, PRESS, "mmHg", "conventional mmHg = 13595.1 kg/m^3 x g_0 x 1 mm"); u("centimeter_Hg", rho_hg * g0 / 100, PRESS, "cmHg", "conventional")
u("inch_Hg", rho_hg * g0 * inch, PRESS, "inHg", "conventional"); u("centimeter_H2O", rho_w * g0 / 100, PRESS, "cmH2O", "conventional"); u("foot_H2O", rho_w * g0 * foot, PRESS, "ftH2O", "conventional")
# energy, power, torque
u("erg", D("1e-7"), ENERGY, None, "CGS"); u("calorie", cal_th, ENERGY, "cal", "thermochemical calorie"); u("international_calorie", cal_it, ENERGY, "cal_it", "5th Int. Conf. Properties of Steam 1956")
u("fifteen_degree_calorie", D("4.1855"), ENERGY, "cal_15", "CIPM 1950"); u("british_thermal_unit", btu_iso, ENERGY, "Btu", "ISO 31-4")
u("international_british_thermal_unit", cal_it * lb * 1000 * F(5, 9), ENERGY, "Btu_it", "1 Btu_IT = 1 cal_IT/g x lb x °R/K"); u("thermochemical_british_thermal_unit", cal_th * lb * 1000 * F(5, 9), ENERGY, "Btu_th", "NIST SP 811")
u("watt_hour", 3600, ENERGY, "Wh", S); u("ton_TNT", cal_th * 10 ** 9, ENERGY, None, "1 t TNT = 1e9 cal_th"); u("therm", btu_iso * 10 ** 5, ENERGY, "thm", "EC therm = 1e5 Btu_ISO")
u("tonne_of_oil_equivalent", cal_it * 10 ** 10, ENERGY, "toe", "IEA: 1 toe = 1e10 cal_IT"); u("quadrillion_Btu", btu_iso * 10 ** 15, ENERGY, "quad", "1e15 Btu"); u("atmosphere_liter", atm * L, ENERGY, None, "atm x L")
u("foot_pound", foot * lb * g0, ENERGY, None, "ft x lbf"); u("horsepower", 550 * foot * lb * g0, POWER, "hp", "1 hp = 550 ft lbf/s"); u("metric_horsepower", 75 * g0, POWER, None, "1 PS = 75 kgf m/s"); u("electrical_horsepower", 746, POWER, None, "NIST SP 811")
# speed, time, angle
u("knot", nmi / 3600, SPEED, None, "1 kn = 1 nmi/h"); u("mile_per_hour", mile / 3600, SPEED, "mph", Y); u("kilometer_per_hour", F(1000, 3600), SPEED, None, S); u("foot_per_second", foot, SPEED, "fps", Y)
u("week", 7 * day, T1, None, "ISO 8601"); u("fortnight", 14 * day, T1, None, ""); u("year", jyear, T1, "a", "IAU Julian year"); u("gregorian_year", D("365.2425") * day, T1, None, "Gregorian mean year")
u("common_year", 365 * day, T1, None, ""); u("leap_year", 366 * day, T1, None, ""); u("century", 100 * jyear, T1, None, "Julian century"); u("millennium", 1000 * jyear, T1, None, "")
u("shake", D("1e-8"), T1, None, ""); u("svedberg", D("1e-13"), T1, None, "")
PI = "pi"  # angles are checked as rational multiples of the file's own π literal
for n, mult, sym in (("turn", F(2), None), ("degree", F(1, 180), "deg"), ("arcminute", F(1, 10800), "arcmin"), ("arcsecond", F(1, 648000), "arcsec"), ("grade", F(1, 200), "grad")):
    E.append({"name": n, "kind": "angle", "pi_multiple": f"{mult.numerator}/{mult.denominator}", "dims": NONE, "symbol": [sym] if sym else None, "source": "SI brochure table 8 / ISO 80000-3"})
# information, ratios
u("bit", 1, NONE, None, "IEC 80000-13"); u("byte", 8, NONE, "B", "IEC 80000-13"); u("baud", 1, FREQ, "Bd", "1 Bd = 1 symbol/s")
u("percent", D("0.01"), NONE, "%", ""); u("permille", D("0.001"), NONE, "‰", ""); u("ppm", D("1e-6"), NONE, None, "")
# radiation, CGS-EMU
u("curie", D("3.7e10"), FREQ, "Ci", "NIST SP 811"); u("rutherford", 10 ** 6, FREQ, "Rd", ""); u("rads", D("0.01"), {"[length]": 2, "[time]": -2}, None, "1 rad = 0.01 Gy"); u("rem", D("0.01"), {"[length]": 2, "[time]": -2}, None, "1 rem = 0.01 Sv")
u("roentgen", D("2.58e-4"), {"[current]": 1, "[time]": 1, "[mass]": -1}, None, "1 R = 2.58e-4 C/kg")
u("poise", D("0.1"), {"[mass]": 1, "[length]": -1, "[time]": -1}, "P", "CGS"); u("stokes", D("1e-4"), {"[length]": 2, "[time]": -1}, "St", "CGS"); u("galileo", D("0.01"), {"[length]": 1, "[time]": -2}, "Gal", "CGS")
u("reciprocal_centimeter", 100, {"[length]": -1}, None, "kayser"); u("stilb", 10 ** 4, {"[luminosity]": 1, "[length]": -2}, None, "CGS"); u("nit", 1, {"[luminosity]": 1, "[length]": -2}, None, "")
u("biot", 10, {"[current]": 1}, "Bi", "CGS-EMU"); u("abampere", 10, {"[current]": 1}, "abA", "CGS-EMU"); u("abcoulomb", 10, CHARGE, "abC", "CGS-EMU"); u("abvolt", D("1e-8"), VOLT, "abV", "CGS-EMU")
u("abohm", D("1e-9"), OHM, None, "CGS-EMU"); u("abfarad", 10 ** 9, {"[mass]": -1, "[length]": -2, "[time]": 4, "[current]": 2}, "abF", "CGS-EMU"); u("abhenry", D("1e-9"), {"[mass]": 1, "[length]": 2, "[time]": -2, "[current]": -2}, "abH", "CGS-EMU")
u("absiemens", 10 ** 9, {"[mass]": -1, "[length]": -2, "[time]": 3, "[current]": 2}, "abS", "CGS-EMU"); u("gamma", D("1e-9"), {"[mass]": 1, "[time]": -2, "[current]": -1}, "γ", "1 γ = 1 nT")
u("ampere_hour", 3600, CHARGE, "Ah", S); u("volt_ampere", 1, POWER, "VA", S); u("molar", 1000, {"[substance]": 1, "[length]": -3}, "M", "1 M = 1 mol/L"); u("sverdrup", 10 ** 6, {"[length]": 3, "[time]": -1}, None, "")
u("tex", D("1e-6"), {"[mass]": 1, "[length]": -1}, None, "ISO 1144: 1 tex = 1 g/km"); u("denier", D("1e-6") / 9, {"[mass]": 1, "[length]": -1}, "den", "1 den = 1 g/9 km")

# ---- measured constants: digits of the named CODATA release -------------------------------
CODATA = "CODATA 2022 recommended values"
for n, digits in (("newtonian_constant_of_gravitation", "6.67430e-11"), ("rydberg_constant", "1.0973731568157e7"), ("electron_g_factor", "-2.00231930436092"),
                  ("atomic_mass_constant", "1.66053906892e-27"), ("electron_mass", "9.1093837139e-31"), ("proton_mass", "1.67262192595e-27"), ("neutron_mass", "1.67492750056e-27")):
    E.append({"name": n, "kind": "measured", "digits": digits, "source": CODATA})


for n, digits in (("x_unit_Cu", "1.00207697e-13"), ("x_unit_Mo", "1.00209952e-13"), ("angstrom_star", "1.00001495e-10")):
    E.append({"name": n, "kind": "measured", "digits": digits, "source": CODATA, "dims": L1})

# ---- second batch: further exact units ------------------------------------------------
MASSLEN = {"[mass]": 1, "[length]": -1}
SPECW = {"[mass]": 1, "[length]": -3}          # densities of the conventional manometer liquids
VISC = {"[mass]": 1, "[length]": -1, "[time]": -1}
u("UK_hundredweight", 112 * lb, M1, None, UK); u("UK_ton", 2240 * lb, M1, None, UK); u("US_hundredweight", 100 * lb, M1, None, "NIST Handbook 44"); u("US_ton", 2000 * lb, M1, None, "NIST Handbook 44")
u("UK_force_ton", 2240 * lb * g0, FORCE, None, UK); u("US_force_ton", 2000 * lb * g0, FORCE, None, Y)
u("slinch", lb * g0 / inch, M1, None, "1 slinch = 1 lbf s^2/in = 12 slug")
u("month", jyear / 12, T1, None, "Julian year / 12"); u("eon", 10 ** 9 * jyear, T1, None, "1e9 Julian years")
u("kilometer_per_second", 1000, SPEED, None, S); u("meter_per_second", 1, SPEED, None, S); u("counts_per_second", 1, FREQ, None, "")
u("gamma_mass", D("1e-9"), M1, None, "1 γ = 1 µg"); u("lambda", D("1e-9"), V3, None, "1 λ = 1 µL")
u("imperial_cup", igal / 16, V3, None, "half an imperial pint"); u("square_survey_mile", (5280 * sft) ** 2, A2, None, "US survey mile squared"); u("square_league", (3 * 5280 * sft) ** 2, A2, None, "US survey league = 3 survey miles")
u("cicero", F(12, 2660), L1, None, "12 Didot points, didot = 1/2660 m"); u("tex_pica", 12 * inch / D("72.27"), L1, None, "TeX: 72.27 pt = 1 in"); u("tex_didot", F(1238, 1157) * inch / D("72.27"), L1, None, "TeX: 1157 dd = 1238 pt"); u("tex_cicero", 12 * F(1238, 1157) * inch / D("72.27"), L1, None, "TeX: 1 cc = 12 dd")
u("dtex", D("1e-7"), MASSLEN, None, "1 dtex = 0.1 tex")
u("US_therm", D("1.054804e8"), ENERGY, None, "US therm (59 °F) = 1.054804e8 J, 15 CFR / NIST SP 811")
u("mercury", rho_hg, SPECW, None, "conventional mercury 13595.1 kg/m^3 (ISO 31-3)"); u("water", rho_w, SPECW, None, "conventional water 1000 kg/m^3")
u("mercury_60F", D("13556.8"), SPECW, None, "NIST SP 811 inHg (60 °F)"); u("water_39F", D("999.972"), SPECW, None, "NIST SP 811 inH2O (39.2 °F)"); u("water_60F", D("999.001"), SPECW, None, "NIST SP 811 inH2O (60 °F)")
u("inch_Hg_60F", D("13556.8") * g0 * inch, PRESS, None, "NIST SP 811: 3376.85 Pa"); u("inch_H2O_39F", D("999.972") * g0 * inch, PRESS, None, "NIST SP 811: 249.082 Pa"); u("inch_H2O_60F", D("999.001") * g0 * inch, PRESS, None, "NIST SP 811: 248.84 Pa")
u("reyn", lb * g0 / inch ** 2, VISC, None, "1 reyn = 1 psi s"); u("rhe", 10, {"[mass]": -1, "[length]": 1, "[time]": 1}, None, "1 rhe = 1/P")
u("darcy", D("1e-3") * D("1e-4") / atm, A2, None, "1 D = 1 cP cm^2/(s atm)")
u("particle", 1 / NA, {"[substance]": 1}, None, "1/N_A"); u("enzyme_unit", D("1e-6") / 60, {"[substance]": 1, "[time]": -1}, "U", "1 U = 1 µmol/min")
u("clausius", cal_th, {"[mass]": 1, "[length]": 2, "[time]": -2, "[temperature]": -1}, "Cl", "1 Cl = 1 cal_th/K"); u("entropy_unit", cal_th, {"[mass]": 1, "[length]": 2, "[time]": -2, "[temperature]": -1, "[substance]": -1}, "eu", "1 e.u. = 1 cal_th/(K mol)")
u("peak_sun_hour", D("3.6e6"), {"[mass]": 1, "[time]": -2}, "PSH", "1 kWh/m^2"); u("langley", cal_th * 10 ** 4, {"[mass]": 1, "[time]": -2}, "Ly", "1 Ly = 1 cal_th/cm^2")
u("faraday", e * NA, CHARGE, None, "F = e N_A (exact since 2019)")
u("mean_international_volt", D("1.00034"), VOLT, "V_it", "NIST SP 811"); u("US_international_volt", D("1.00033"), VOLT, "V_US", "NIST SP 811")
u("mean_international_ohm", D("1.00049"), OHM, None, "NIST SP 811"); u("US_international_ohm", D("1.000495"), OHM, None, "NIST SP 811")
u("mean_international_ampere", D("1.00034") / D("1.00049"), {"[current]": 1}, "A_it", "V_it / Ω_it"); u("US_international_ampere", D("1.00033") / D("1.000495"), {"[current]": 1}, "A_US", "V_US / Ω_US")
u("ampere_turn", 1, {"[current]": 1}, "At", ""); u("biot_turn", 10, {"[current]": 1}, None, "CGS-EMU")
u("townsend", D("1e-21"), {"[mass]": 1, "[length]": 4, "[time]": -3, "[current]": -1}, "Td", "1 Td = 1e-21 V m^2")
KJ90 = D("483597.9e9"); RK90 = D("25812.807"); KJ = 2 * e / h; RK = h / e ** 2
u("conventional_volt_90", KJ90 / KJ, VOLT, "V_90", "CIPM 1988: K_J-90 = 483597.9 GHz/V; K_J = 2e/h"); u("conventional_ohm_90", RK / RK90, OHM, None, "CIPM 1988: R_K-90 = 25812.807 Ω; R_K = h/e^2")
u("conventional_ampere_90", KJ90 * RK90 / (KJ * RK), {"[current]": 1}, "A_90", "V_90/Ω_90"); u("conventional_coulomb_90", KJ90 * RK90 / (KJ * RK), CHARGE, "C_90", "A_90 s")
u("conventional_watt_90", KJ90 ** 2 * RK90 / (KJ ** 2 * RK), POWER, "W_90", "V_90^2/Ω_90"); u("conventional_farad_90", RK90 / RK, {"[mass]": -1, "[length]": -2, "[time]": 4, "[current]": 2}, "F_90", "s/Ω_90")
u("conventional_henry_90", RK / RK90, {"[mass]": 1, "[length]": 2, "[time]": -2, "[current]": -2}, "H_90", "Ω_90 s")
u("standard_liter_per_minute", atm * L / 60, POWER, "slpm", "atm L/min")


def approx(name, value, rel_tol, dims, src, symbol=None):
    rec = {"name": name, "kind": "approx", "value": value, "rel_tol": rel_tol, "dims": dims, "source": src}
    if symbol is not None:
        rec["symbol"] = symbol if isinstance(symbol, list) else [symbol]
    E.append(rec)


# values involving π or published only as decimals: compared to the stated number of digits
C22 = "CODATA 2022"
approx("stefan_boltzmann_constant", "5.670374419e-8", "1e-9", {"[mass]": 1, "[time]": -3, "[temperature]": -4}, C22 + " (exact-derived)")
approx("first_radiation_constant", "3.741771852e-16", "1e-9", {"[mass]": 1, "[length]": 4, "[time]": -3}, C22 + " (exact-derived)")
approx("second_radiation_constant", "1.438776877e-2", "1e-9", {"[length]": 1, "[temperature]": 1}, C22 + " (exact-derived)")
approx("wien_wavelength_displacement_law_constant", "2.897771955e-3", "1e-9", {"[length]": 1, "[temperature]": 1}, C22 + " (exact-derived)")
approx("wien_frequency_displacement_law_constant", "5.878925757e10", "1e-9", {"[time]": -1, "[temperature]": -1}, C22 + " (exact-derived)")
approx("dirac_constant", "1.054571817e-34", "1e-9", {"[mass]": 1, "[length]": 2, "[time]": -1}, C22 + " hbar (exact-derived)")
approx("fine_structure_constant", "7.2973525643e-3", "1e-9", NONE, C22)
approx("vacuum_permeability", "1.25663706127e-6", "1e-9", {"[mass]": 1, "[length]": 1, "[time]": -2, "[current]": -2}, C22)
approx("vacuum_permittivity", "8.8541878188e-12", "1e-9", {"[mass]": -1, "[length]": -3, "[time]": 4, "[current]": 2}, C22)
approx("impedance_of_free_space", "376.730313412", "1e-9", OHM, C22)
approx("coulomb_constant", "8.9875517862e9", "1e-9", {"[mass]": 1, "[length]": 3, "[time]": -4, "[current]": -2}, C22 + " 1/(4 π ε_0)")
approx("classical_electron_radius", "2.8179403205e-15", "2e-9", L1, C22)
approx("thomson_cross_section", "6.6524587051e-29", "4e-9", A2, C22)
approx("bohr", "5.29177210544e-11", "1e-9", L1, C22)
approx("hartree", "4.3597447222060e-18", "1e-9", ENERGY, C22)
approx("rydberg", "2.1798723611030e-18", "1e-9", ENERGY, C22 + " (h c R_inf)")
approx("atomic_unit_of_time", "2.4188843265864e-17", "1e-9", T1, C22)
approx("atomic_unit_of_force", "8.2387235038e-8", "2e-9", FORCE, C22)
approx("atomic_unit_of_temperature", "3.1577502480398e5", "1e-9", TEMP, C22 + " E_h/k")
approx("atomic_unit_of_current", "6.6236182375082e-3", "1e-9", {"[current]": 1}, C22)
approx("atomic_unit_of_electric_field", "5.14220675112e11", "2e-9", {"[mass]": 1, "[length]": 1, "[time]": -3, "[current]": -1}, C22)
approx("atomic_unit_of_intensity", "3.5094452e20", "1e-6", {"[mass]": 1, "[time]": -3}, "0.5 ε_0 c E_au^2 = 3.50944... e16 W/cm^2")
approx("bohr_magneton", "9.2740100657e-24", "1e-9", {"[current]": 1, "[length]": 2}, C22)
approx("nuclear_magneton", "5.0507837393e-27", "1e-9", {"[current]": 1, "[length]": 2}, C22)
approx("planck_length", "1.616255e-35", "2e-5", L1, C22)
approx("planck_mass", "2.176434e-8", "2e-5", M1, C22)
approx("planck_time", "5.391247e-44", "2e-5", T1, C22)
approx("planck_temperature", "1.416784e32", "2e-5", TEMP, C22)
approx("planck_current", "3.4789e25", "1e-4", {"[current]": 1}, "sqrt(4 π ε_0 c^6/G)")
approx("unified_atomic_mass_unit", "1.66053906892e-27", "1e-10", M1, C22)
approx("dalton", "1.66053906892e-27", "1e-10", M1, C22)
approx("parsec", "3.0856775814913673e16", "1e-15", L1, "IAU 2015 Res. B2: 648000/π au")
approx("milliarcsecond", "4.84813681109536e-9", "1e-14", NONE, "π/648000000 rad", "mas")
approx("square_degree", "3.0461741978670857e-4", "1e-15", NONE, "(π/180)^2 sr")
approx("revolutions_per_minute", "0.10471975511965977", "1e-15", FREQ, "2π/60 rad/s", "rpm")
approx("revolutions_per_second", "6.283185307179586", "1e-15", FREQ, "2π rad/s", "rps")
approx("circular_mil", "5.067074790974977e-10", "1e-14", A2, "π/4 (0.001 in)^2", "cmil")
approx("lambert", "3183.098861837907", "1e-14", {"[luminosity]": 1, "[length]": -2}, "1/π cd/cm^2")
approx("gilbert", "0.7957747154594768", "1e-14", {"[current]": 1}, "10/(4π) A", "Gb")
approx("unit_pole", "1.25663706127e-7", "1e-9", {"[mass]": 1, "[length]": 2, "[time]": -2, "[current]": -1}, "4π x 1e-8 Wb (µ_0 x 10 A x 1 cm)")
approx("debye", "3.33564095e-30", "1e-8", {"[current]": 1, "[time]": 1, "[length]": 1}, "1 D = 1e-21/c C m", "D")
approx("buckingham", "3.33564095e-40", "1e-8", {"[current]": 1, "[time]": 1, "[length]": 2}, "1 B = 1 D Å")
approx("sidereal_year", "31558149.7635", "1e-9", T1, "365.256363004 d (J2000)")
approx("tropical_year", "31556925.25", "1e-8", T1, "365.24219 d (J2000)")
approx("sidereal_day", "86164.0905", "1e-8", T1, "23 h 56 min 4.0905 s")
approx("sidereal_month", "2360591.5", "1e-7", T1, "27.321661 d")
approx("tropical_month", "2360584.7", "1e-7", T1, "27.321582 d")
approx("synodic_month", "2551442.9", "1e-7", T1, "29.530589 d")

# logarithmic units: (reference value in SI, logbase, logfactor)
for n, ref, base, factor, sym in (("decibelwatt", "1", "10", "10", "dBW"), ("decibelmilliwatt", "1/1000", "10", "10", "dBm"), ("decibelmicrowatt", "1/1000000", "10", "10", "dBu"),
                                  ("decibel", "1", "10", "10", "dB"), ("decade", "1", "10", "1", None), ("octave", "1", "2", "1", "oct"), ("neper", "1", "e", "1/2", "Np")):
    E.append({"name": n, "kind": "log_unit", "si": ref, "logbase": base, "logfactor": factor, "symbol": [sym] if sym else None,
              "dims": POWER if n.startswith("decibel") and n != "decibel" else NONE, "source": "ISO 80000-3 / IEC 60027-3: L = logfactor x log_base(P/P_ref)"})

out = os.path.join(os.path.dirname(os.path.abspath(__file__)), "standard_values.json")
with open(out, "w", encoding="utf-8") as fh:
    json.dump({"_comment": "generated by gen_standard_values.py from primitive standard definitions; SI-coherent rationals", "entries": E}, fh, indent=0, ensure_ascii=False)
print(len(E), "entries written to", out)
