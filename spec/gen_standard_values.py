#!/usr/bin/env python3
"""Generates spec/standard_values.json: an independently curated table of internationally
standardised values (SI brochure 9th ed. 2019 + 2022 prefixes, NIST SP 811 / Handbook 44,
the 1959 international yard and pound agreement, UK Weights and Measures Act 1985, CODATA
2022).  Every derived entry is computed here from the primitive standard definitions with
exact rational arithmetic; nothing is read from pint.  Values are SI-coherent (m, kg, s, A,
K, mol, cd; angles in rad).  Run this file to regenerate the JSON after editing the table.
"""
import json
import os
from fractions import Fraction as F

D = lambda s: F(str(s))

# ---- primitive standard definitions -------------------------------------------------
inch = D("0.0254")            # international inch (1959): yard = 0.9144 m exactly
foot = 12 * inch
yard = 3 * foot
mile = 1760 * yard
lb = D("0.45359237")          # international avoirdupois pound (1959), kg
grain = lb / 7000             # 64.79891 mg
g0 = D("9.80665")             # standard gravity (CGPM 1901)
atm = D("101325")             # standard atmosphere (CGPM 1954)
sft = F(1200, 3937)           # US survey foot (1893 Mendenhall order)
gal = 231 * inch ** 3         # US liquid gallon
igal = D("4.54609") / 1000    # imperial gallon (UK 1985), m^3
bushel = D("2150.42") * inch ** 3
cal_th = D("4.184")
cal_it = D("4.1868")
btu_iso = D("1055.056")
c = F(299792458)
h = D("6.62607015e-34")
e = D("1.602176634e-19")
k = D("1.380649e-23")
NA = D("6.02214076e23")
au = F(149597870700)
nmi = F(1852)
day = F(86400)
jyear = D("365.25") * day
rho_hg = D("13595.1")         # conventional mercury kg/m^3 (ISO 31-3 / BS 350)
rho_w = F(1000)               # conventional water
L = F(1, 1000)

L1 = {"[length]": 1}
A2 = {"[length]": 2}
V3 = {"[length]": 3}
M1 = {"[mass]": 1}
T1 = {"[time]": 1}
FORCE = {"[mass]": 1, "[length]": 1, "[time]": -2}
PRESS = {"[mass]": 1, "[length]": -1, "[time]": -2}
ENERGY = {"[mass]": 1, "[length]": 2, "[time]": -2}
POWER = {"[mass]": 1, "[length]": 2, "[time]": -3}
SPEED = {"[length]": 1, "[time]": -1}
FREQ = {"[time]": -1}
CHARGE = {"[current]": 1, "[time]": 1}
VOLT = {"[mass]": 1, "[length]": 2, "[time]": -3, "[current]": -1}
OHM = {"[mass]": 1, "[length]": 2, "[time]": -3, "[current]": -2}
TEMP = {"[temperature]": 1}
NONE = {}

E = []


def u(name, si, dims, symbol=None, src="", kind="unit", **kw):
    rec = {"name": name, "kind": kind, "si": f"{F(si).numerator}/{F(si).denominator}", "dims": dims, "source": src}
    if symbol is not None:
        rec["symbol"] = symbol if isinstance(symbol, list) else [symbol]
    rec.update(kw)
    E.append(rec)


# ---- prefixes -----------------------------------------------------------------------
SI_PREFIXES = [("quecto", -30, "q"), ("ronto", -27, "r"), ("yocto", -24, "y"), ("zepto", -21, "z"), ("atto", -18, "a"), ("femto", -15, "f"),
               ("pico", -12, "p"), ("nano", -9, "n"), ("micro", -6, "µ"), ("milli", -3, "m"), ("centi", -2, "c"), ("deci", -1, "d"),
               ("deca", 1, "da"), ("hecto", 2, "h"), ("kilo", 3, "k"), ("mega", 6, "M"), ("giga", 9, "G"), ("tera", 12, "T"), ("peta", 15, "P"),
               ("exa", 18, "E"), ("zetta", 21, "Z"), ("yotta", 24, "Y"), ("ronna", 27, "R"), ("quetta", 30, "Q")]
for n, p, s in SI_PREFIXES:
    E.append({"name": n, "kind": "prefix", "si": f"{(F(10) ** p).numerator}/{(F(10) ** p).denominator}", "symbol": [s], "source": "SI brochure 9th ed. table 7 (+ CGPM 2022 Res. 3)"})
for i, (n, s) in enumerate([("kibi", "Ki"), ("mebi", "Mi"), ("gibi", "Gi"), ("tebi", "Ti"), ("pebi", "Pi"), ("exbi", "Ei"), ("zebi", "Zi"), ("yobi", "Yi")], 1):
    E.append({"name": n, "kind": "prefix", "si": f"{2 ** (10 * i)}/1", "symbol": [s], "source": "IEC 80000-13"})

# ---- SI base and derived units ------------------------------------------------------
S = "SI brochure 9th ed."
u("meter", 1, L1, "m", S); u("second", 1, T1, "s", S); u("ampere", 1, {"[current]": 1}, "A", S); u("kelvin", 1, TEMP, "K", S)
u("mole", 1, {"[substance]": 1}, "mol", S); u("candela", 1, {"[luminosity]": 1}, "cd", S); u("gram", F(1, 1000), M1, "g", S)
u("radian", 1, NONE, "rad", S); u("steradian", 1, NONE, "sr", S)
u("hertz", 1, FREQ, "Hz", S); u("newton", 1, FORCE, "N", S); u("pascal", 1, PRESS, "Pa", S); u("joule", 1, ENERGY, "J", S); u("watt", 1, POWER, "W", S)
u("coulomb", 1, CHARGE, "C", S); u("volt", 1, VOLT, "V", S); u("ohm", 1, OHM, "Ω", S)
u("farad", 1, {"[mass]": -1, "[length]": -2, "[time]": 4, "[current]": 2}, "F", S)
u("siemens", 1, {"[mass]": -1, "[length]": -2, "[time]": 3, "[current]": 2}, "S", S)
u("weber", 1, {"[mass]": 1, "[length]": 2, "[time]": -2, "[current]": -1}, "Wb", S)
u("tesla", 1, {"[mass]": 1, "[time]": -2, "[current]": -1}, "T", S)
u("henry", 1, {"[mass]": 1, "[length]": 2, "[time]": -2, "[current]": -2}, "H", S)
u("lumen", 1, {"[luminosity]": 1}, "lm", S); u("lux", 1, {"[luminosity]": 1, "[length]": -2}, "lx", S)
u("becquerel", 1, FREQ, "Bq", S); u("gray", 1, {"[length]": 2, "[time]": -2}, "Gy", S); u("sievert", 1, {"[length]": 2, "[time]": -2}, "Sv", S)
u("katal", 1, {"[substance]": 1, "[time]": -1}, "kat", S)
# non-SI units accepted for use with the SI (table 8)
u("minute", 60, T1, "min", S); u("hour", 3600, T1, "h", S); u("day", 86400, T1, "d", S)
u("hectare", 10 ** 4, A2, "ha", S); u("liter", L, V3, ["l", "L"], S); u("metric_ton", 1000, M1, "t", S)
u("astronomical_unit", au, L1, "au", S + " / IAU 2012 B2"); u("electron_volt", e, ENERGY, "eV", S)
# temperature scales
u("degree_Celsius", 1, TEMP, "°C", S, kind="offset_unit", offset=str(D("273.15")))
u("degree_Fahrenheit", F(5, 9), TEMP, "°F", "NIST SP 811 B.8: T/K = (t/°F + 459.67)/1.8", kind="offset_unit", offset=str(D("459.67") * F(5, 9)))
u("degree_Rankine", F(5, 9), TEMP, "°R", "NIST SP 811 B.8", kind="offset_unit", offset="0")
u("degree_Reaumur", F(4, 5), TEMP, None, "1 °Ré = 1.25 K, 0 °Ré = 273.15 K", kind="offset_unit", offset=str(D("273.15")))

# ---- defining and conventional constants -----------------------------------------------
C9 = "SI brochure 9th ed. (2019 defining constants)"
u("speed_of_light", c, SPEED, "c", C9, kind="constant"); u("planck_constant", h, {"[mass]": 1, "[length]": 2, "[time]": -1}, None, C9, kind="constant")
u("elementary_charge", e, CHARGE, "e", C9, kind="constant"); u("boltzmann_constant", k, {"[mass]": 1, "[length]": 2, "[time]": -2, "[temperature]": -1}, "k", C9, kind="constant")
u("avogadro_constant", NA, {"[substance]": -1}, "N_A", C9, kind="constant"); u("avogadro_number", NA, NONE, None, C9, kind="constant")
u("standard_gravity", g0, {"[length]": 1, "[time]": -2}, "g_0", "3rd CGPM 1901", kind="constant")
u("standard_atmosphere", atm, PRESS, "atm", "10th CGPM 1954 Res. 4", kind="constant")
u("conventional_josephson_constant", D("483597.9e9"), {"[mass]": -1, "[length]": -2, "[time]": 2, "[current]": 1}, "K_J90", "CIPM 1988 Rec. 1", kind="constant")
u("conventional_von_klitzing_constant", D("25812.807"), OHM, "R_K90", "CIPM 1988 Rec. 2", kind="constant")
u("molar_gas_constant", k * NA, {"[mass]": 1, "[length]": 2, "[time]": -2, "[temperature]": -1, "[substance]": -1}, "R", "R = k N_A (exact since 2019)", kind="constant")
u("faraday_constant", e * NA, {"[current]": 1, "[time]": 1, "[substance]": -1}, None, "F = e N_A (exact since 2019)", kind="constant")
u("josephson_constant", 2 * e / h, {"[mass]": -1, "[length]": -2, "[time]": 2, "[current]": 1}, "K_J", "K_J = 2e/h", kind="constant")
u("von_klitzing_constant", h / e ** 2, OHM, "R_K", "R_K = h/e^2", kind="constant")
u("conductance_quantum", 2 * e ** 2 / h, {"[mass]": -1, "[length]": -2, "[time]": 3, "[current]": 2}, "G_0", "G_0 = 2e^2/h", kind="constant")
u("magnetic_flux_quantum", h / (2 * e), {"[mass]": 1, "[length]": 2, "[time]": -2, "[current]": -1}, "Φ_0", "Φ_0 = h/2e", kind="constant")

# ---- international yard and pound: length -------------------------------------------------
Y = "international yard and pound agreement 1959; NIST SP 811 B.8/B.9"
u("inch", inch, L1, "in", Y); u("foot", foot, L1, "ft", Y); u("yard", yard, L1, "yd", Y); u("mile", mile, L1, "mi", Y)
u("thou", inch / 1000, L1, "th", Y); u("hand", 4 * inch, L1, None, Y)
u("nautical_mile", nmi, L1, "nmi", "First International Extraordinary Hydrographic Conference 1929")
u("angstrom", D("1e-10"), L1, "Å", "NIST SP 811"); u("micron", D("1e-6"), L1, None, "CIPM 1879"); u("fermi", D("1e-15"), L1, "fm", "NIST SP 811")
u("light_year", c * jyear, L1, "ly", "IAU: c x Julian year")
H44 = "NIST Handbook 44 Appendix C (US survey measure)"
u("survey_foot", sft, L1, "sft", H44); u("fathom", 6 * sft, L1, None, H44); u("rod", D("16.5") * sft, L1, "rd", H44); u("chain", 66 * sft, L1, None, H44)
u("link", D("0.66") * sft, L1, "li", H44); u("furlong", 660 * sft, L1, "fur", H44); u("survey_mile", 5280 * sft, L1, None, H44); u("league", 3 * 5280 * sft, L1, None, H44)
u("cables_length", 720 * sft, L1, None, "US Navy cable = 120 fathoms")
u("pica", inch / 6, L1, None, "PostScript pica"); u("point", inch / 72, L1, None, "PostScript (big) point"); u("tex_point", inch / D("72.27"), L1, None, "TeX point"); u("css_pixel", inch / 96, L1, "px", "CSS reference pixel")
u("didot", F(1, 2660), L1, None, "1 didot = 1/2660 m"); u("scaled_point", inch / D("72.27") / 65536, L1, None, "TeX sp")
# area
u("are", 100, A2, None, S); u("barn", D("1e-28"), A2, "b", "NIST SP 811"); u("square_inch", inch ** 2, A2, None, Y); u("square_foot", foot ** 2, A2, None, Y)
u("square_yard", yard ** 2, A2, None, Y); u("square_mile", mile ** 2, A2, None, Y); u("acre", 43560 * sft ** 2, A2, None, H44); u("square_rod", (D("16.5") * sft) ** 2, A2, None, H44)
# volume
u("cubic_inch", inch ** 3, V3, None, Y); u("cubic_foot", foot ** 3, V3, None, Y); u("cubic_yard", yard ** 3, V3, None, Y); u("cubic_centimeter", D("1e-6"), V3, "cc", S); u("stere", 1, V3, None, S)
US = "NIST Handbook 44 Appendix C (US liquid/dry measure)"
u("gallon", gal, V3, "gal", US); u("quart", gal / 4, V3, "qt", US); u("pint", gal / 8, V3, "pt", US); u("cup", gal / 16, V3, None, US); u("gill", gal / 32, V3, "gi", US)
u("fluid_ounce", gal / 128, V3, None, US); u("fluid_dram", gal / 1024, V3, None, US); u("minim", gal / 61440, V3, None, US)
u("tablespoon", gal / 256, V3, "tbsp", US); u("teaspoon", gal / 768, V3, "tsp", US); u("fifth", gal / 5, V3, None, US)
u("barrel", D("31.5") * gal, V3, "bbl", US); u("oil_barrel", 42 * gal, V3, None, US); u("hogshead", 63 * gal, V3, None, US); u("beer_barrel", 31 * gal, V3, None, US)
u("bushel", bushel, V3, "bu", US); u("peck", bushel / 4, V3, "pk", US); u("dry_gallon", bushel / 8, V3, None, US); u("dry_quart", bushel / 32, V3, None, US); u("dry_pint", bushel / 64, V3, None, US)
u("dry_barrel", 7056 * inch ** 3, V3, None, US); u("board_foot", 144 * inch ** 3, V3, None, "1 ft x 1 ft x 1 in"); u("acre_foot", 43560 * sft ** 3, V3, None, H44)
UK = "UK Weights and Measures Act 1985"
u("imperial_gallon", igal, V3, None, UK); u("imperial_quart", igal / 4, V3, None, UK); u("imperial_pint", igal / 8, V3, None, UK); u("imperial_gill", igal / 32, V3, None, UK)
u("imperial_fluid_ounce", igal / 160, V3, None, UK); u("imperial_fluid_drachm", igal / 1280, V3, None, UK); u("imperial_fluid_scruple", igal / 3840, V3, None, UK); u("imperial_minim", igal / 76800, V3, None, UK)
u("imperial_peck", 2 * igal, V3, None, UK); u("imperial_bushel", 8 * igal, V3, None, UK); u("imperial_barrel", 36 * igal, V3, None, UK)
# mass
u("pound", lb, M1, "lb", Y); u("ounce", lb / 16, M1, "oz", Y); u("dram", lb / 256, M1, "dr", Y); u("grain", grain, M1, "gr", Y); u("stone", 14 * lb, M1, None, UK)
u("quarter", 28 * lb, M1, None, UK + ": quarter = 28 lb (a quarter of a long hundredweight)")
u("hundredweight", 100 * lb, M1, "cwt", "US short hundredweight, NIST Handbook 44"); u("long_hundredweight", 112 * lb, M1, None, UK)
u("ton", 2000 * lb, M1, None, "US short ton"); u("long_ton", 2240 * lb, M1, None, UK); u("carat", D("2e-4"), M1, "ct", "4th CGPM 1907")
u("pennyweight", 24 * grain, M1, "dwt", "troy"); u("troy_ounce", 480 * grain, M1, None, "troy"); u("troy_pound", 5760 * grain, M1, None, "troy")
u("scruple", 20 * grain, M1, None, "apothecaries"); u("apothecary_dram", 60 * grain, M1, None, "apothecaries"); u("apothecary_ounce", 480 * grain, M1, None, "apothecaries"); u("apothecary_pound", 5760 * grain, M1, None, "apothecaries")
u("slug", lb * g0 / foot, M1, None, "1 slug = 1 lbf s^2/ft"); u("bag", 94 * lb, M1, None, "US bag of cement")
# force
u("force_pound", lb * g0, FORCE, "lbf", Y + " x g_0"); u("force_kilogram", g0, FORCE, "kgf", "CGPM 1901"); u("force_gram", g0 / 1000, FORCE, "gf", "CGPM 1901"); u("dyne", D("1e-5"), FORCE, "dyn", "CGS")
u("poundal", lb * foot, FORCE, "pdl", "1 pdl = 1 lb ft/s^2"); u("kip", 1000 * lb * g0, FORCE, None, "1 kip = 1000 lbf"); u("force_ounce", lb * g0 / 16, FORCE, "ozf", Y)
u("force_ton", 2000 * lb * g0, FORCE, None, Y); u("force_long_ton", 2240 * lb * g0, FORCE, None, Y); u("force_metric_ton", 1000 * g0, FORCE, "tf", "CGPM 1901")
# pressure
u("bar", 10 ** 5, PRESS, "bar", S); u("barye", D("0.1"), PRESS, "Ba", "CGS"); u("torr", atm / 760, PRESS, None, "1 Torr = 101325/760 Pa"); u("technical_atmosphere", g0 * 10 ** 4, PRESS, "at", "1 at = 1 kgf/cm^2")
u("pound_force_per_square_inch", lb * g0 / inch ** 2, PRESS, "psi", Y); u("kip_per_square_inch", 1000 * lb * g0 / inch ** 2, PRESS, "ksi", Y)
u("millimeter_Hg", rho_hg * g0 / 1000, PRESS, "mmHg", "conventional mmHg = 13595.1 kg/m^3 x g_0 x 1 mm"); u("centimeter_Hg", rho_hg * g0 / 100, PRESS, "cmHg", "conventional")
u("inch_Hg", rho_hg * g0 * inch, PRESS, "inHg", "conventional"); u("centimeter_H2O", rho_w * g0 / 100, PRESS, "cmH2O", "conventional"); u("foot_H2O", rho_w * g0 * foot, PRESS, "ftH2O", "conventional")
# energy, power, torque
u("erg", D("1e-7"), ENERGY, None, "CGS"); u("calorie", cal_th, ENERGY, "cal", "thermochemical calorie"); u("international_calorie", cal_it, ENERGY, "cal_it", "5th Int. Conf. Properties of Steam 1956")
u("fifteen_degree_calorie", D("4.1855"), ENERGY, "cal_15", "CIPM 1950"); u("british_thermal_unit", btu_iso, ENERGY, "Btu", "ISO 31-4")
u("international_british_thermal_unit", cal_it * lb * 1000 * F(5, 9), ENERGY, "Btu_it", "1 Btu_IT = 1 cal_IT/g x lb x °R/K"); u("thermochemical_british_thermal_unit", cal_th * lb * 1000 * F(5, 9), ENERGY, "Btu_th", "NIST SP 811")
u("watt_hour", 3600, ENERGY, "Wh", S); u("ton_TNT", cal_th * 10 ** 9, ENERGY, None, "1 t TNT = 1e9 cal_th"); u("therm", btu_iso * 10 ** 5, ENERGY, "thm", "EC therm = 1e5 Btu_ISO")
u("tonne_of_oil_equivalent", cal_it * 10 ** 10, ENERGY, "toe", "IEA: 1 toe = 1e10 cal_IT"); u("quadrillion_Btu", btu_iso * 10 ** 15, ENERGY, "quad", "1e15 Btu"); u("atmosphere_liter", atm * L, ENERGY, None, "atm x L")
u("foot_pound", foot * lb * g0, ENERGY, None, "ft x lbf"); u("horsepower", 550 * foot * lb * g0, POWER, "hp", "1 hp = 550 ft lbf/s"); u("metric_horsepower", 75 * g0, POWER, None, "1 PS = 75 kgf m/s"); u("electrical_horsepower", 746, POWER, None, "NIST SP 811")
# speed, time, angle
u("knot", nmi / 3600, SPEED, None, "1 kn = 1 nmi/h"); u("mile_per_hour", mile / 3600, SPEED, "mph", Y); u("kilometer_per_hour", F(1000, 3600), SPEED, None, S); u("foot_per_second", foot, SPEED, "fps", Y)
u("week", 7 * day, T1, None, "ISO 8601"); u("fortnight", 14 * day, T1, None, ""); u("year", jyear, T1, "a", "IAU Julian year"); u("gregorian_year", D("365.2425") * day, T1, None, "Gregorian mean year")
u("common_year", 365 * day, T1, None, ""); u("leap_year", 366 * day, T1, None, ""); u("century", 100 * jyear, T1, None, "Julian century"); u("millennium", 1000 * jyear, T1, None, "")
u("shake", D("1e-8"), T1, None, ""); u("svedberg", D("1e-13"), T1, None, "")
PI = "pi"  # angles are checked as rational multiples of the file's own π literal
for n, mult, sym in (("turn", F(2), None), ("degree", F(1, 180), "deg"), ("arcminute", F(1, 10800), "arcmin"), ("arcsecond", F(1, 648000), "arcsec"), ("grade", F(1, 200), "grad")):
    E.append({"name": n, "kind": "angle", "pi_multiple": f"{mult.numerator}/{mult.denominator}", "dims": NONE, "symbol": [sym] if sym else None, "source": "SI brochure table 8 / ISO 80000-3"})
# information, ratios
u("bit", 1, NONE, None, "IEC 80000-13"); u("byte", 8, NONE, "B", "IEC 80000-13"); u("baud", 1, FREQ, "Bd", "1 Bd = 1 symbol/s")
u("percent", D("0.01"), NONE, "%", ""); u("permille", D("0.001"), NONE, "‰", ""); u("ppm", D("1e-6"), NONE, None, "")
# radiation, CGS-EMU
u("curie", D("3.7e10"), FREQ, "Ci", "NIST SP 811"); u("rutherford", 10 ** 6, FREQ, "Rd", ""); u("rads", D("0.01"), {"[length]": 2, "[time]": -2}, None, "1 rad = 0.01 Gy"); u("rem", D("0.01"), {"[length]": 2, "[time]": -2}, None, "1 rem = 0.01 Sv")
u("roentgen", D("2.58e-4"), {"[current]": 1, "[time]": 1, "[mass]": -1}, None, "1 R = 2.58e-4 C/kg")
u("poise", D("0.1"), {"[mass]": 1, "[length]": -1, "[time]": -1}, "P", "CGS"); u("stokes", D("1e-4"), {"[length]": 2, "[time]": -1}, "St", "CGS"); u("galileo", D("0.01"), {"[length]": 1, "[time]": -2}, "Gal", "CGS")
u("reciprocal_centimeter", 100, {"[length]": -1}, None, "kayser"); u("stilb", 10 ** 4, {"[luminosity]": 1, "[length]": -2}, None, "CGS"); u("nit", 1, {"[luminosity]": 1, "[length]": -2}, None, "")
u("biot", 10, {"[current]": 1}, "Bi", "CGS-EMU"); u("abampere", 10, {"[current]": 1}, "abA", "CGS-EMU"); u("abcoulomb", 10, CHARGE, "abC", "CGS-EMU"); u("abvolt", D("1e-8"), VOLT, "abV", "CGS-EMU")
u("abohm", D("1e-9"), OHM, None, "CGS-EMU"); u("abfarad", 10 ** 9, {"[mass]": -1, "[length]": -2, "[time]": 4, "[current]": 2}, "abF", "CGS-EMU"); u("abhenry", D("1e-9"), {"[mass]": 1, "[length]": 2, "[time]": -2, "[current]": -2}, "abH", "CGS-EMU")
u("absiemens", 10 ** 9, {"[mass]": -1, "[length]": -2, "[time]": 3, "[current]": 2}, "abS", "CGS-EMU"); u("gamma", D("1e-9"), {"[mass]": 1, "[time]": -2, "[current]": -1}, "γ", "1 γ = 1 nT")
u("ampere_hour", 3600, CHARGE, "Ah", S); u("volt_ampere", 1, POWER, "VA", S); u("molar", 1000, {"[substance]": 1, "[length]": -3}, "M", "1 M = 1 mol/L"); u("sverdrup", 10 ** 6, {"[length]": 3, "[time]": -1}, None, "")
u("tex", D("1e-6"), {"[mass]": 1, "[length]": -1}, None, "ISO 1144: 1 tex = 1 g/km"); u("denier", D("1e-6") / 9, {"[mass]": 1, "[length]": -1}, "den", "1 den = 1 g/9 km")

# ---- measured constants: digits of the named CODATA release -------------------------------
CODATA = "CODATA 2022 recommended values"
for n, digits in (("newtonian_constant_of_gravitation", "6.67430e-11"), ("rydberg_constant", "1.0973731568157e7"), ("electron_g_factor", "-2.00231930436092"),
                  ("atomic_mass_constant", "1.66053906892e-27"), ("electron_mass", "9.1093837139e-31"), ("proton_mass", "1.67262192595e-27"), ("neutron_mass", "1.67492750056e-27")):
    E.append({"name": n, "kind": "measured", "digits": digits, "source": CODATA})

out = os.path.join(os.path.dirname(os.path.abspath(__file__)), "standard_values.json")
with open(out, "w", encoding="utf-8") as fh:
    json.dump({"_comment": "generated by gen_standard_values.py from primitive standard definitions; SI-coherent rationals", "entries": E}, fh, indent=0, ensure_ascii=False)
print(len(E), "entries written to", out)
